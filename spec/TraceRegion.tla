----------------------------- MODULE TraceRegion ----------------------------
(* Binding of Region.tla's winding definitions to real regions: the search graph of every region the
   classifier obtained (edges <<source, target, multiplier>>) is recorded together with what
   LinkedUnitCollection.get_connected_directions() answered.
     ConformsWinding  - the code flags as many directions as the winding lattice has rank (after fix: one per
                        independent column of the wrap-around vectors), each with a non-zero winding component
     EdgesWellFormed  - multipliers are non-zero {-1,0,1} vectors
     RankIsDimensionality - (slabs / monolayers of C18 only) the rank of the winding lattice is 2 *)
EXTENDS Integers, Sequences, FiniteSets, TLC, Json, IOUtils
Tr == ndJsonDeserialize(IOEnv.TRACE_FILE)
Sub(a, b) == << a[1] - b[1], a[2] - b[2], a[3] - b[3] >>
Cross(a, b) == << a[2]*b[3] - a[3]*b[2], a[3]*b[1] - a[1]*b[3], a[1]*b[2] - a[2]*b[1] >>
Dot(a, b) == a[1]*b[1] + a[2]*b[2] + a[3]*b[3]
Zero3 == <<0, 0, 0>>
Only(S) == CHOOSE x \in S : TRUE
Edges(e) == {<<e.edges[k][1], e.edges[k][2], e.edges[k][3]>> : k \in 1..Len(e.edges)}
Winding(x) == Sub(Sub(x[2], x[1]), x[3])
WindVecsOf(E) == {Winding(x) : x \in E} \ {Zero3}
WindDirsOf(W) == {k \in 1..3 : \E w \in W : w[k] # 0}
RankOf(W) == IF W = {} THEN 0
             ELSE Only({ IF \A b \in W : Cross(a, b) = Zero3 THEN 1
                         ELSE Only({ IF \A c \in W : Dot(nrm, c) = 0 THEN 2 ELSE 3 : nrm \in {Cross(a, CHOOSE x \in W : Cross(a, x) # Zero3)} })
                         : a \in {CHOOSE x \in W : TRUE} })
EdgesWellFormed(E) == \A x \in E : x[3] # Zero3 /\ \A k \in 1..3 : x[3][k] \in {-1, 0, 1}
VerdictW(e, W, E) ==
  IF ~EdgesWellFormed(E) THEN "DRIFT-EdgesWellFormed"
  ELSE IF ~({k \in 1..3 : e.code_dirs[k]} \subseteq WindDirsOf(W)) \/ Cardinality({k \in 1..3 : e.code_dirs[k]}) # RankOf(W)
       THEN "DRIFT-ConformsWinding"
  ELSE IF e.expect_rank # -1 /\ RankOf(W) # e.expect_rank THEN "INFO-RankIsDimensionality"
  ELSE "ok"
Verdict(e) == Only({ Only({VerdictW(e, W, E) : W \in {WindVecsOf(E)}}) : E \in {Edges(e)} })
VARIABLES i, done
vars == <<i, done>>
Init == i \in 1..Len(Tr) /\ done = FALSE
Next == /\ ~done
        /\ LET v == Verdict(Tr[i]) IN IF v = "ok" THEN TRUE ELSE PrintT(<<"FAIL", Tr[i].tid, v>>)
        /\ done' = TRUE /\ i' = i
Spec == Init /\ [][Next]_vars
=============================================================================
