SPECIFICATION Spec
CONSTANTS CellIdx = {1, 2, 3, 4}
 MaxAtoms = 3
INVARIANT AlgoEqualsGF2
INVARIANT GF2EqualsZ
INVARIANT ShiftInvariant
INVARIANT DimInRange
CHECK_DEADLOCK FALSE
