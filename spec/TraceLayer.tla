----------------------------- MODULE TraceLayer -----------------------------
(* C11: 2D materials get a vacuum-, orientation- and labelling-independent normal form.
   One record per presentation of a layer (lengths in 1e-4 A, angles in 1e-4 degrees, fractional
   coordinates in 1e-6); `first` = tid of the first presentation of the same layer and min_2d_thickness. *)
EXTENDS Integers, Sequences, FiniteSets, TLC, Json, IOUtils

Tr == ndJsonDeserialize(IOEnv.TRACE_FILE)
Abs(x) == IF x < 0 THEN -x ELSE x
F(e) == Tr[e.first]
Occ(o) == {<<o[k][1], o[k][2], o[k][3], o[k][4]>> : k \in 1..Len(o)}
DL == 30          \* 3e-3 A
DA == 300         \* 3e-2 degrees
PeriodicInABOnly(e) == e.pbc = <<TRUE, TRUE, FALSE>>
AllInside(e) == \A k \in 1..Len(e.frac) : \A c \in 1..3 : -200 <= e.frac[k][c] /\ e.frac[k][c] <= 1000200
Thickness(e) == Abs(e.c_len - (IF e.extent > e.min_thick THEN e.extent ELSE e.min_thick)) <= DL
\* ... and the extent is the one of the layer that was supplied (measured by the harness on the input along the plane normal),
\* not only the one of the returned cell: a layer returned cut in two by the cell boundary has the wrong thickness
\* (positions are idealised within the symmetry tolerance of the analysis, 0.05 A, at both faces of the layer)
ThicknessOfInput(e) == Abs(e.c_len - (IF e.extent_in > e.min_thick THEN e.extent_in ELSE e.min_thick)) <= 1000 + DL
NormalPerpendicular(e) == Abs(e.alpha - 900000) <= DA /\ Abs(e.beta - 900000) <= DA
SameLabels(e) == e.id = F(e).id /\ e.number = F(e).number /\ Occ(e.occ) = Occ(F(e).occ)
\* in-plane lattice parameters up to the a <-> b exchange that a flip of the sheet may cause is NOT allowed:
\* the normal form fixes the cell, so (a, b, gamma) must coincide
SameInPlaneLattice(e) == Abs(e.a_len - F(e).a_len) <= DL /\ Abs(e.b_len - F(e).b_len) <= DL /\ Abs(e.gamma - F(e).gamma) <= DA
SameAtomCount(e) == e.n_conv = F(e).n_conv
DiffersFrom3D(e) == e.id # e.id3d
Verdict(e) == IF e.error # "" THEN "ReturnsNormally" ELSE IF ~PeriodicInABOnly(e) THEN "PeriodicInABOnly"
              ELSE IF ~AllInside(e) THEN "AllAtomsInside" ELSE IF ~NormalPerpendicular(e) THEN "NonPeriodicVectorLastAndPerpendicular"
              ELSE IF ~Thickness(e) THEN "ThicknessIsMaxOfExtentAndMin"
              ELSE IF ~ThicknessOfInput(e) THEN "ThicknessIsThatOfTheSuppliedLayer"
              ELSE IF ~SameLabels(e) THEN "SameIdGroupOccupation" ELSE IF ~SameAtomCount(e) THEN "SameAtomCount"
              ELSE IF ~SameInPlaneLattice(e) THEN "SameInPlaneLattice"
              ELSE IF ~DiffersFrom3D(e) THEN "IdDiffersFrom3D" ELSE "ok"
VARIABLES i, done
vars == <<i, done>>
Init == i \in 1..Len(Tr) /\ done = FALSE
Next == /\ ~done
        /\ LET v == Verdict(Tr[i]) IN IF v = "ok" THEN TRUE ELSE PrintT(<<"FAIL", Tr[i].tid, v>>)
        /\ done' = TRUE /\ i' = i
Spec == Init /\ [][Next]_vars
=============================================================================
