---------------------------- MODULE LatticeModel ----------------------------
(* Theorems of the exact minimum-image definitions (Lattice.tla) checked exhaustively on a small catalogue:
   they justify how CellTrace / TraceDim use the definitions.
     MicSymmetric        Mic2(d) = Mic2(-d)
     SafeKSuffices       a box that satisfies SafeK already contains a minimiser (K+1 gives the same minimum)
     BasisIndependent    the minimum computed in a unimodularly changed basis of the same lattice is the same
     MicBelowDirect      Mic2(d) <= |d|^2, with equality when no axis is periodic
     ShiftInvariant      Mic2(d + lattice vector) = Mic2(d) *)
EXTENDS Lattice

Cells == << << <<3,0,0>>, <<0,3,0>>, <<0,0,3>> >>,
            << <<2,0,0>>, <<0,3,0>>, <<0,0,5>> >>,
            << <<3,0,0>>, <<1,3,0>>, <<1,1,3>> >>,
            << <<2,0,0>>, <<1,2,0>>, <<0,1,2>> >>,
            << <<1,0,0>>, <<0,1,0>>, <<0,0,6>> >> >>
\* unimodular changes of basis (rows are integer combinations of the old rows)
Us == << << <<1,0,0>>, <<0,1,0>>, <<0,0,1>> >>, << <<1,1,0>>, <<0,1,0>>, <<0,0,1>> >>,
         << <<1,0,0>>, <<2,1,0>>, <<1,1,1>> >>, << <<0,1,0>>, <<0,0,1>>, <<1,0,0>> >> >>
B == {TRUE, FALSE}
KMax == 6
CONSTANT DMax
VARIABLES ci, pbc, d, ui, res
vars == <<ci, pbc, d, ui, res>>
Init == /\ ci \in 1..Len(Cells) /\ pbc \in B \X B \X B /\ ui \in 1..Len(Us)
        /\ d \in (-DMax..DMax) \X (-(DMax - 1)..DMax) \X (-DMax..(DMax + 1))
        /\ res = <<>>
P3 == <<pbc[1], pbc[2], pbc[3]>>
D3 == <<d[1], d[2], d[3]>>
Per == Periodic(Cells[ci], P3)
\* the changed basis is applied to the periodic sub-lattice only when all axes are periodic (otherwise identity)
U == IF pbc[1] /\ pbc[2] /\ pbc[3] THEN Us[ui] ELSE Us[1]
Per2 == MatMul(U, Per)
KFor(basis, d2) == CHOOSE K \in 0..KMax : SafeK(K, basis, d2) /\ \A J \in 0..(K - 1) : ~SafeK(J, basis, d2)
HasK(basis, d2) == \E K \in 0..KMax : SafeK(K, basis, d2)
Evaluate == /\ res = <<>>
            /\ LET d2 == Norm2(D3) IN
               IF ~(HasK(Per, d2) /\ HasK(Per2, d2)) THEN res' = [skip |-> TRUE]
               ELSE \E K1 \in {KFor(Per, d2)} : \E K2 \in {KFor(Per2, d2)} :
                    res' = [skip |-> FALSE, m |-> Mic2(D3, K1, Per), mneg |-> Mic2(Scale(-1, D3), K1, Per),
                            mk1 |-> Mic2(D3, K1 + 1, Per), mu |-> Mic2(D3, K2, Per2), d2 |-> d2,
                            mshift |-> Mic2(VAdd(D3, VAdd(Per[1], Scale(-1, Per[3]))), K1 + 2, Per)]
            /\ UNCHANGED <<ci, pbc, d, ui>>
Next == Evaluate
Spec == Init /\ [][Next]_vars
Done == res # <<>> /\ ~res.skip
MicSymmetric == Done => res.m = res.mneg
SafeKSuffices == Done => res.mk1 = res.m
BasisIndependent == Done => res.mu = res.m
MicBelowDirect == Done => (res.m <= res.d2 /\ ((~pbc[1] /\ ~pbc[2] /\ ~pbc[3]) => res.m = res.d2))
ShiftInvariant == Done => res.mshift = res.m
=============================================================================
