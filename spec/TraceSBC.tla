------------------------------ MODULE TraceSBC ------------------------------
(* Trace validation of the SBC pipeline: recorded executions of SBC.get_clusters (events written by
   the harness' wrappers around PeriodicFinder.get_region and the three phase methods) are replayed
   through the actions of SBC.tla.

     "seed"      -> SeedStep with the logged environment answer (seed, mask, region or none)
     "merged"    -> the silent MergeStep iterations must have produced exactly the logged clusters
     "localized" -> the silent LocalizeStep iterations likewise
     "cleaned"   -> CleanStep with the logged surviving components, each of which must be *a* largest
                    bonded component (ties: any)

   Bond / Near are taken from the distance matrix the code itself used (this spec checks that the
   code follows the algorithm model; the property verdicts of C01/C13 are decided by TraceSBCVerdict
   with an independent bonding graph).  A trace that cannot be consumed is MODEL-DRIFT, not a violation. *)
EXTENDS SBC, Json, IOUtils

Tr == ndJsonDeserialize(IOEnv.TRACE_FILE)
VARIABLES tid, l
tvars == <<vars, tid, l>>

Ev == Tr[tid].events
IsEvent(name) == l <= Len(Ev) /\ Ev[l].ev = name
Consume == l' = l + 1 /\ UNCHANGED tid
Silent == UNCHANGED <<tid, l>>

\* projection of the model's cluster list to what a snapshot records
Proj(cs) == [j \in 1..Len(cs) |-> [idx |-> cs[j].idx, sp |-> cs[j].sp, reg |-> cs[j].reg, mg |-> cs[j].mg]]
Snap(e) == [j \in 1..Len(e.clusters) |-> [idx |-> ToSet(e.clusters[j].idx), sp |-> ToSet(e.clusters[j].sp),
                                           reg |-> e.clusters[j].reg, mg |-> e.clusters[j].mg]]

TInit == /\ tid \in 1..Len(Tr) /\ l = 1
         /\ n = Tr[tid].n /\ thr = <<Tr[tid].merge_num, Tr[tid].merge_den>>
         /\ pc = "seed"
         /\ Z = [a \in 1..Tr[tid].n |-> Tr[tid].z[a]]
         /\ Bond = [a \in 1..Tr[tid].n |-> ToSet(Tr[tid].bondC[a])]
         /\ Near = [a \in 1..Tr[tid].n |-> ToSet(Tr[tid].nearC[a])]
         /\ remaining = 1..Tr[tid].n /\ clusters = <<>> /\ iso = <<>> /\ cur = 0 /\ omap = <<>> /\ asked = {}

TSeed == /\ IsEvent("seed")
         /\ SeedStep(Ev[l].s, ToSet(Ev[l].mask), Ev[l].has, ToSet(Ev[l].grain))
         /\ Consume
TSeedDone == IsEvent("merged") /\ SeedDone /\ Silent
TMergeStep == IsEvent("merged") /\ MergeStep /\ Silent
TMergeDone == /\ IsEvent("merged") /\ MergeDone
              /\ Proj(clusters') = Snap(Ev[l])
              /\ Consume
TLocalizeStep == IsEvent("localized") /\ LocalizeStep /\ Silent
TLocalizeDone == /\ IsEvent("localized") /\ LocalizeDone
                 /\ Proj(clusters) = Snap(Ev[l])
                 /\ Consume
\* survivors logged after cleaning, in order; cluster `cur` keeps the next unmatched one or disappears
TCleanStep == /\ IsEvent("cleaned") /\ pc = "clean" /\ cur <= Len(clusters)
              /\ LET k == Len(iso) + 1 IN
                 \/ (k <= Len(Ev[l].clusters) /\ CleanStep(ToSet(Ev[l].clusters[k].idx)))
                 \/ CleanStep({})
              /\ Silent
TCleanDone == /\ IsEvent("cleaned") /\ CleanDone
              /\ Proj(clusters') = Snap(Ev[l])
              /\ Consume
              /\ PrintT(<<"ACCEPT", Tr[tid].tid>>)
TNext == TSeed \/ TSeedDone \/ TMergeStep \/ TMergeDone \/ TLocalizeStep \/ TLocalizeDone \/ TCleanStep \/ TCleanDone
TSpec == TInit /\ [][TNext]_tvars

\* the model's invariants are evaluated in every state of every replayed execution
TFinal == pc = "done"
T_NonEmpty == NonEmpty
T_PairwiseDisjoint == PairwiseDisjoint
T_SpeciesConsistent == SpeciesConsistent
=============================================================================
