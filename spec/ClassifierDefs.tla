----------------------------- MODULE ClassifierDefs -------------------------
(* C17 / C18: the dispatch of Classifier.classify as a one-step model, and its contract on recorded runs.

   Model (lines 213-291 of classifier.py): the class is a function of the dimensionality of the wrapped
   structure, the number of atoms and - for dimensionality 2 - of the best region found by the periodic
   finder (none, or [nbasis, is2d, nconn]) and min_coverage (a rational).  The design model enumerates all
   environment answers for small numbers; the trace part judges real runs. *)
EXTENDS Integers, Sequences, FiniteSets, TLC, Json, IOUtils

None == -1
Classes == {"Unknown", "Atom", "Class0D", "Class1D", "Class2D", "Surface", "Material2D", "Class3D"}
\* coverage = nbasis / natoms >= num / den
Covered(nbasis, natoms, num, den) == nbasis * den >= num * natoms
Dispatch(dim, natoms, hasRegion, nbasis, is2d, nconn, num, den) ==
  CASE dim = None -> "Unknown"
    [] dim = 0 -> IF natoms = 1 THEN "Atom" ELSE "Class0D"
    [] dim = 1 -> "Class1D"
    [] dim = 3 -> "Class3D"
    [] dim = 2 -> IF hasRegion /\ nconn = 2 /\ Covered(nbasis, natoms, num, den)
                  THEN (IF is2d THEN "Material2D" ELSE "Surface") ELSE "Class2D"
ClassMatchesDim(cls, dim, natoms) ==
  CASE dim = None -> cls = "Unknown"
    [] dim = 0 -> cls = (IF natoms = 1 THEN "Atom" ELSE "Class0D")
    [] dim = 1 -> cls = "Class1D"
    [] dim = 2 -> cls \in {"Class2D", "Surface", "Material2D"}
    [] dim = 3 -> cls = "Class3D"
=============================================================================
