SPECIFICATION Spec
CONSTANT G <- GCubic
CONSTANTS NMax = 4
 Met = {1, 2}
 EqualMetrics = FALSE
INVARIANT PrimitiveWhenAvailable
CHECK_DEADLOCK FALSE
