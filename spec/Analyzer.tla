------------------------------ MODULE Analyzer ------------------------------
(* Cache / history state machine of SymmetryAnalyzer (growth beyond the listed clauses; supports the history
   parts of C06 / C12).  The structure is extracted from the *live source* at check time (mv/analyzer_model.py):
     Model.fields   - every attribute some method assigns
     Model.methods  - public methods with the attributes they may fill (transitively through self.m() calls)
     Model.reinit   - attributes that set_system() (through reset()) re-initialises
   Lazily cached attributes keep their value once filled.  `owner[f]` remembers for which system an attribute
   was filled (0 = empty).  NoStaleCache: nothing survives set_system() that was computed for another system.
   A counterexample <<method, attribute>> is replayed into the real class by the harness. *)
EXTENDS Integers, Sequences, FiniteSets, TLC, Json, IOUtils

Model == JsonDeserialize(IOEnv.ANALYZER_MODEL)
ToSetA(s) == {s[k] : k \in 1..Len(s)}
Fields == ToSetA(Model.fields)
Reinit == ToSetA(Model.reinit)
NM == Len(Model.methods)
Assigns(m) == ToSetA(Model.methods[m].assigns)

VARIABLES sys, owner, last
vars == <<sys, owner, last>>
Init == sys = 1 /\ owner = [f \in Fields |-> IF f \in Reinit THEN 0 ELSE 0] /\ last = "init"
Call(m) == /\ owner' = [f \in Fields |-> IF f \in Assigns(m) /\ owner[f] = 0 THEN sys ELSE owner[f]]
           /\ last' = Model.methods[m].name /\ UNCHANGED sys
SetSystem == /\ sys' = 3 - sys
             /\ owner' = [f \in Fields |-> IF f \in Reinit THEN 0 ELSE owner[f]]
             /\ last' = "set_system"
Next == SetSystem \/ \E m \in 1..NM : Call(m)
Spec == Init /\ [][Next]_vars
NoStaleCache == \A f \in Fields : owner[f] \in {0, sys}
\* stale attributes (for the harness): printed once a violation exists
Stale == {f \in Fields : owner[f] \notin {0, sys}}
Report == (Stale # {}) => PrintT(<<"STALE", CHOOSE f \in Stale : TRUE, last>>)
=============================================================================
