----------------------------- MODULE CellTrace ------------------------------
(* C10 / C16: recorded calls of the C++ extension (through matid.geometry) on Z-world inputs, judged
   against the exact definitions of Lattice.tla.

   Record fields (all integers; the harness has rotated / scaled the input before the call and mapped the
   output back, `exact` = every mapped-back number was within 1e-6 of an integer):
     cell, pbc, pos, red, U, K, c2x2 (2*cutoff^2, odd; -1 = unbounded), lmax2 (longest periodic vector^2)
   ev = "tensor":  fin[i][j] (entry finite?), disp[i][j], fac[i][j], dist2[i][j]                      (C10)
   ev = "extend":  ext2x2 (2*extension^2), images = <<[idx, fac, pos]>>                               (C16)
   ev = "query":   q (query point), e2x2, c2x2, found = <<[idx, fac, disp, dist2]>>                   (C16)
   ev = "match":   q, z (searched species), tol2x2, res = [kind, idx, fac]                            (C16) *)
EXTENDS Lattice, Json, IOUtils

Tr == ndJsonDeserialize(IOEnv.TRACE_FILE)
N(e) == Len(e.pos)
D(e, i, j) == VSub(e.pos[i], e.pos[j])
True2(e, i, j) == Mic2(D(e, i, j), e.K, e.red)

Setup(e) == /\ SameLattice(e.cell, e.pbc, e.red, e.U)
            /\ \A i, j \in 1..N(e) : SafeK(e.K, e.red, Norm2(D(e, i, j)))

\* ---------------------------------------------------------------- C10
Finite(e, i, j) == e.fin[i][j]
\* every finite entry is a genuine periodic-image vector with integer factors, and its norm
GenuineImage(e) == \A i, j \in 1..N(e) : Finite(e, i, j) =>
   /\ e.disp[i][j] = VSub(D(e, i, j), Comb(e.fac[i][j], e.cell))
   /\ \A k \in 1..3 : ~e.pbc[k] => e.fac[i][j][k] = 0
   /\ e.dist2[i][j] = Norm2(e.disp[i][j])
Antisymmetric(e) == \A i, j \in 1..N(e) :
   /\ Finite(e, i, j) = Finite(e, j, i)
   /\ Finite(e, i, j) => (e.disp[i][j] = Scale(-1, e.disp[j][i]) /\ e.dist2[i][j] = e.dist2[j][i])
ZeroDiagonal(e) == \A i \in 1..N(e) : Finite(e, i, i) /\ e.disp[i][i] = Zero3 /\ e.dist2[i][i] = 0
NeverShorterThanMic(e) == \A i, j \in 1..N(e) : (i # j /\ Finite(e, i, j)) => e.dist2[i][j] >= True2(e, i, j)
\* within the cutoff (or, unbounded, within the longest periodic vector) the entry is exactly the minimum
InRange(e, m2) == IF e.c2x2 = -1 THEN m2 <= e.lmax2 ELSE 2*m2 <= e.c2x2
ExactWithinRange(e) == \A i, j \in 1..N(e) : i # j =>
   LET m2 == True2(e, i, j) IN InRange(e, m2) => (Finite(e, i, j) /\ e.dist2[i][j] = m2)
InfiniteBeyondCutoff(e) == e.c2x2 # -1 => \A i, j \in 1..N(e) : (i # j /\ 2*True2(e, i, j) > e.c2x2) => ~Finite(e, i, j)
NoInfiniteWhenUnbounded(e) == e.c2x2 = -1 => \A i, j \in 1..N(e) : Finite(e, i, j)

VTensor(e) ==
  IF ~Setup(e) THEN "HARNESS-Setup" ELSE IF ~e.exact THEN "ExactInRationalWorld"
  ELSE IF ~ZeroDiagonal(e) THEN "ZeroDiagonal" ELSE IF ~Antisymmetric(e) THEN "Antisymmetric"
  ELSE IF ~GenuineImage(e) THEN "GenuineImage" ELSE IF ~NeverShorterThanMic(e) THEN "NeverShorterThanMic"
  ELSE IF ~ExactWithinRange(e) THEN "ExactWithinRange" ELSE IF ~InfiniteBeyondCutoff(e) THEN "InfiniteBeyondCutoff"
  ELSE IF ~NoInfiniteWhenUnbounded(e) THEN "NoInfiniteWhenUnbounded"
  ELSE IF ~e.same_as_get_distances THEN "GetDistancesIsTheSameTable"
  \* history: the tables handed out by this call are still what they were after a later call on another input of the same size
  ELSE IF ~e.untouched_by_later_call THEN "EarlierResultUntouchedByLaterCall" ELSE "ok"

\* ---------------------------------------------------------------- C16: extended system
ImgPos(e, im) == VAdd(e.pos[im.idx], Comb(im.fac, e.cell))
ExtSound(e) == \A k \in 1..Len(e.images) : LET im == e.images[k] IN
   /\ im.idx \in 1..N(e)
   /\ im.pos = ImgPos(e, im)
   /\ \A a \in 1..3 : ~e.pbc[a] => im.fac[a] = 0
   /\ im.z = e.z[im.idx]
ExtOnce(e) == Cardinality({<<e.images[k].idx, e.images[k].fac>> : k \in 1..Len(e.images)}) = Len(e.images)
OriginalsFirst(e) == /\ Len(e.images) >= N(e)
                     /\ \A k \in 1..N(e) : e.images[k].idx = k /\ e.images[k].fac = Zero3
FBox(e) == Rng(e.Kf, IF e.pbc[1] THEN <<1,0,0>> ELSE Zero3) \X Rng(e.Kf, IF e.pbc[2] THEN <<1,0,0>> ELSE Zero3)
           \X Rng(e.Kf, IF e.pbc[3] THEN <<1,0,0>> ELSE Zero3)
Present(e) == {<<e.images[k].idx, e.images[k].fac>> : k \in 1..Len(e.images)}
\* image (a, f) lies within the extension distance of (a grid point of) the cell
NearCell(e, a, f, r2x2) == LET p == VAdd(e.pos[a], Comb(f, e.cell)) IN \E g \in 1..Len(e.grid) : 2*Norm2(VSub(p, e.grid[g])) <= r2x2
ExtComplete(e) == \A a \in 1..N(e) : \A f \in FBox(e) : NearCell(e, a, <<f[1], f[2], f[3]>>, e.ext2x2) => <<a, <<f[1], f[2], f[3]>>>> \in Present(e)
VExtend(e) ==
  IF ~e.exact THEN "ExactInRationalWorld" ELSE IF ~ExtSound(e) THEN "ExtSound" ELSE IF ~ExtOnce(e) THEN "ExtOnce"
  ELSE IF ~OriginalsFirst(e) THEN "OriginalsFirst" ELSE IF ~ExtComplete(e) THEN "ExtComplete" ELSE "ok"

\* ---------------------------------------------------------------- C16: neighbour query at a point q of the cell
QItems(e) == {<<e.found[k].idx, e.found[k].fac>> : k \in 1..Len(e.found)}
QuerySound(e) == \A k \in 1..Len(e.found) : LET it == e.found[k] IN
   /\ it.idx \in 1..N(e)
   /\ \A a \in 1..3 : ~e.pbc[a] => it.fac[a] = 0
   /\ it.disp = VSub(e.q, VAdd(e.pos[it.idx], Comb(it.fac, e.cell)))
   /\ it.dist2 = Norm2(it.disp)
   /\ 2*it.dist2 <= e.c2x2                                   \* never one beyond the cutoff
QueryOnce(e) == Cardinality(QItems(e)) = Len(e.found)
QueryComplete(e) == \A a \in 1..N(e) : \A f \in FBox(e) :
   LET ff == <<f[1], f[2], f[3]>>  p == VAdd(e.pos[a], Comb(ff, e.cell)) IN
   (2*Norm2(VSub(e.q, p)) <= e.c2x2 /\ NearCell(e, a, ff, e.ext2x2)) => <<a, ff>> \in QItems(e)
VQuery(e) ==
  IF ~e.exact THEN "ExactInRationalWorld" ELSE IF ~QuerySound(e) THEN "QuerySound" ELSE IF ~QueryOnce(e) THEN "QueryOnce"
  ELSE IF ~QueryComplete(e) THEN "QueryComplete" ELSE "ok"

\* ---------------------------------------------------------------- C16: position matching
NearestAll2(e) == Min({Mic2(VSub(e.q, e.pos[a]), e.K, e.red) : a \in 1..N(e)})
MatchSetup(e) == /\ SameLattice(e.cell, e.pbc, e.red, e.U)
                 /\ \A a \in 1..N(e) : SafeK(e.K, e.red, Norm2(VSub(e.q, e.pos[a])))
VMatch(e) ==
  IF ~MatchSetup(e) THEN "HARNESS-Setup" ELSE IF ~e.exact THEN "ExactInRationalWorld"
  ELSE LET m2 == NearestAll2(e) IN
    IF 2*m2 > e.tol2x2 THEN (IF e.res.kind = "vacancy" THEN "ok" ELSE "VacancyWhenNothingWithinTolerance")
    ELSE IF e.res.kind = "vacancy" THEN "NearestWithinToleranceFound"
    ELSE LET p == VAdd(e.pos[e.res.idx], Comb(e.res.fac, e.cell)) IN
      IF Norm2(VSub(e.q, p)) # m2 THEN "MatchIsNearestImage"
      ELSE IF \E a \in 1..3 : ~e.pbc[a] /\ e.res.fac[a] # 0 THEN "MatchOffsetOnlyPeriodic"
      ELSE IF (e.res.kind = "match") # (e.z[e.res.idx] = e.zq) THEN "MatchVsSubstitution"
      ELSE "ok"
\* get_matches_simple: the matched index (or none for vacancy / other species)
VMatchSimple(e) ==
  IF ~MatchSetup(e) THEN "HARNESS-Setup"
  ELSE LET m2 == NearestAll2(e) IN
    IF 2*m2 > e.tol2x2 THEN (IF e.res.kind = "none" THEN "ok" ELSE "SimpleNoneWhenNothingWithinTolerance")
    ELSE LET cands == {a \in 1..N(e) : Mic2(VSub(e.q, e.pos[a]), e.K, e.red) = m2} IN
      IF e.res.kind = "none" THEN (IF \E a \in cands : e.z[a] # e.zq THEN "ok" ELSE "SimpleFindsNearest")
      ELSE IF e.res.idx \in cands /\ e.z[e.res.idx] = e.zq THEN "ok" ELSE "SimpleMatchIsNearestOfSpecies"

Verdict(e) == CASE e.ev = "tensor" -> VTensor(e) [] e.ev = "extend" -> VExtend(e) [] e.ev = "query" -> VQuery(e)
                [] e.ev = "match" -> VMatch(e) [] e.ev = "match_simple" -> VMatchSimple(e)
                [] OTHER -> "HARNESS-unknown-event"

VARIABLES i, done
vars == <<i, done>>
Init == i \in 1..Len(Tr) /\ done = FALSE
Next == /\ ~done
        /\ LET v == Verdict(Tr[i]) IN IF v = "ok" THEN TRUE ELSE PrintT(<<"FAIL", Tr[i].tid, v>>)
        /\ done' = TRUE /\ i' = i
Spec == Init /\ [][Next]_vars
=============================================================================
