SPECIFICATION Spec
CONSTANTS Sizes <- SmallCatalogue
 MaxVac = 2
 Dim3 = TRUE
INVARIANT NoOverride
INVARIANT Complete
INVARIANT CompleteIdeal
INVARIANT EachAtomOnce
INVARIANT WindingSound
INVARIANT WindingRankSound
INVARIANT Bounded
CHECK_DEADLOCK FALSE
