------------------------------ MODULE TraceSym ------------------------------
(* Trace validation of SymmetryAnalyzer look-ups against the reference groups:
   ev = "info"   (C14): crystal system / Bravais lattice / point group reported for a crystal of group sg
   ev = "chiral" (C15): get_is_chiral() for one presentation of a crystal
   One record = one state; the first failing clause of each record is printed. *)
EXTENDS SymGroup, Json, IOUtils

Ref == JsonDeserialize(IOEnv.REFGROUPS)
Tr == ndJsonDeserialize(IOEnv.TRACE_FILE)
G(sg) == OpSet(Ref[sg].ops)

SystemOf(sg) == IF sg <= 2 THEN "triclinic" ELSE IF sg <= 15 THEN "monoclinic" ELSE IF sg <= 74 THEN "orthorhombic"
                ELSE IF sg <= 142 THEN "tetragonal" ELSE IF sg <= 167 THEN "trigonal"
                ELSE IF sg <= 194 THEN "hexagonal" ELSE "cubic"
FamilyLetter(sys) == CASE sys = "triclinic" -> "a" [] sys = "monoclinic" -> "m" [] sys = "orthorhombic" -> "o"
                       [] sys = "tetragonal" -> "t" [] sys = "trigonal" -> "h" [] sys = "hexagonal" -> "h"
                       [] sys = "cubic" -> "c"
MergeSide(c) == IF c \in {"A", "B", "C"} THEN "S" ELSE c
Pearson(sg) == FamilyLetter(SystemOf(sg)) \o MergeSide(Ref[sg].centring)

\* ---- C14: look-ups
GroupDetected(e) == e.number = e.sg                 \* the analyzer finds the group the crystal was built in
InfoVerdict(e) ==
  IF ~GroupDetected(e) THEN "GroupDetected"
  ELSE IF e.system # SystemOf(e.sg) THEN "ReportedCrystalSystem"
  ELSE IF e.bravais # Pearson(e.sg) THEN "ReportedBravaisLattice"
  ELSE IF e.pointgroup # Ref[e.sg].pointgroup THEN "ReportedPointGroup"
  ELSE "ok"

\* ---- C15: chirality
IsSohncke(sg) == Sohncke(G(sg))
ChiralVerdict(e) ==
  IF e.number # e.sg THEN "GroupDetected"
  ELSE IF e.flag # IsSohncke(e.number) THEN "ChiralIffSohncke"
  ELSE IF e.flag # Tr[e.first].flag THEN "FlagPresentationInvariant"
  ELSE "ok"

Verdict(e) == CASE e.ev = "info" -> InfoVerdict(e)
                [] e.ev = "chiral" -> ChiralVerdict(e)
                [] OTHER -> "HARNESS-unknown-event"

VARIABLES i, done
vars == <<i, done>>
Init == i \in 1..Len(Tr) /\ done = FALSE
Next == /\ ~done
        /\ LET v == Verdict(Tr[i]) IN IF v = "ok" THEN TRUE ELSE PrintT(<<"FAIL", Tr[i].tid, v>>)
        /\ done' = TRUE /\ i' = i
Spec == Init /\ [][Next]_vars
\* model-level theorem about the reference: exactly 65 Sohncke types
SohnckeCount == Cardinality({sg \in 1..230 : IsSohncke(sg)}) = 65
ASSUME SohnckeCount
=============================================================================
