---------------------------- MODULE BestBasisEmit ----------------------------
(* spec -> code: writes every initial state of the BestBasis design model (the same SpanLists / Metrics operators
   its Init uses) as one JSON record per line; the harness replays each into the real _find_best_basis and
   TraceBestBasis.tla judges the answers.  TLC evaluates the ASSUME once; the state machine is a dummy. *)
EXTENDS Integers, Sequences, FiniteSets, TLC, Json, IOUtils, SequencesExt
CONSTANTS NMax, Met, EqualMetrics, G
VARIABLES sp, me, done
B == INSTANCE BestBasis
GCubic == B!GCubic
GHex == B!GHex
Cases == UNION {{[spans |-> s, metrics |-> m, gram |-> G] : m \in B!Metrics(s)} : s \in B!SpanLists}
ASSUME ndJsonSerialize(IOEnv.OUT_FILE, SetToSeq(Cases))
ASSUME PrintT(<<"EMITTED", Cardinality(Cases)>>)
Init == sp = <<>> /\ me = <<>> /\ done = TRUE
Next == UNCHANGED <<sp, me, done>>
Spec == Init /\ [][Next]_<<sp, me, done>>
=============================================================================
