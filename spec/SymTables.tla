----------------------------- MODULE SymTables ------------------------------
(* C14 - MatID's built-in space-group tables against the International Tables.
   Tab  = the three tables exported from /repo's working tree at check time (symdata.json)
   Ref  = spglib's Hall-symbol database in the standard setting (refgroups.json)
   The property is a statement about finite data, so the model *is* the verdict: one TLC state per
   task (group / Wyckoff position / normalizer); each evaluates its clauses and prints the first
   failing clause.  16 workers split the tasks. *)
EXTENDS SymGroup, Json, IOUtils

Tab == JsonDeserialize(IOEnv.SYMDATA)
Ref == JsonDeserialize(IOEnv.REFGROUPS)
OFFGRID == 99999

G(sg) == OpSet(Ref[sg].ops)

---------------------------------------------------------------------------
\* International Tables facts that are not in either data set
SystemOf(sg) == IF sg <= 2 THEN "triclinic" ELSE IF sg <= 15 THEN "monoclinic" ELSE IF sg <= 74 THEN "orthorhombic"
                ELSE IF sg <= 142 THEN "tetragonal" ELSE IF sg <= 167 THEN "trigonal"
                ELSE IF sg <= 194 THEN "hexagonal" ELSE "cubic"
FamilyLetter(sys) == CASE sys = "triclinic" -> "a" [] sys = "monoclinic" -> "m" [] sys = "orthorhombic" -> "o"
                       [] sys = "tetragonal" -> "t" [] sys = "trigonal" -> "h" [] sys = "hexagonal" -> "h"
                       [] sys = "cubic" -> "c"
MergeSide(c) == IF c \in {"A", "B", "C"} THEN "S" ELSE c
PGOrder == [ s \in {"1","-1","2","m","2/m","222","mm2","mmm","4","-4","4/m","422","4mm","-42m","4/mmm",
                    "3","-3","32","3m","-3m","6","-6","6/m","622","6mm","-6m2","6/mmm","23","m-3","432","-43m","m-3m"} |->
  CASE s = "1" -> 1 [] s = "-1" -> 2 [] s = "2" -> 2 [] s = "m" -> 2 [] s = "2/m" -> 4 [] s = "222" -> 4
    [] s = "mm2" -> 4 [] s = "mmm" -> 8 [] s = "4" -> 4 [] s = "-4" -> 4 [] s = "4/m" -> 8 [] s = "422" -> 8
    [] s = "4mm" -> 8 [] s = "-42m" -> 8 [] s = "4/mmm" -> 16 [] s = "3" -> 3 [] s = "-3" -> 6 [] s = "32" -> 6
    [] s = "3m" -> 6 [] s = "-3m" -> 12 [] s = "6" -> 6 [] s = "-6" -> 6 [] s = "6/m" -> 12 [] s = "622" -> 12
    [] s = "6mm" -> 12 [] s = "-6m2" -> 12 [] s = "6/mmm" -> 24 [] s = "23" -> 12 [] s = "m-3" -> 24
    [] s = "432" -> 24 [] s = "-43m" -> 24 [] s = "m-3m" -> 48 ]
ChiralPG == {"1","2","222","4","422","3","32","6","622","23","432"}
CentringCount(c) == CASE c = "P" -> 1 [] c \in {"A","B","C","I"} -> 2 [] c = "R" -> 3 [] c = "F" -> 4
\* a generic integer metric tensor (a_i . a_j) of each crystal system in the standard setting
Metric(sys) == CASE sys = "triclinic"    -> << <<17, 3, 5>>, <<3, 29, 7>>, <<5, 7, 41>> >>
                 [] sys = "monoclinic"   -> << <<17, 0, 5>>, <<0, 29, 0>>, <<5, 0, 41>> >>      \* unique axis b
                 [] sys = "orthorhombic" -> << <<17, 0, 0>>, <<0, 29, 0>>, <<0, 0, 41>> >>
                 [] sys = "tetragonal"   -> << <<17, 0, 0>>, <<0, 17, 0>>, <<0, 0, 41>> >>
                 [] sys = "trigonal"     -> << <<34, -17, 0>>, <<-17, 34, 0>>, <<0, 0, 41>> >>  \* hexagonal axes
                 [] sys = "hexagonal"    -> << <<34, -17, 0>>, <<-17, 34, 0>>, <<0, 0, 41>> >>
                 [] sys = "cubic"        -> << <<17, 0, 0>>, <<0, 17, 0>>, <<0, 0, 17>> >>

---------------------------------------------------------------------------
\* sanity of the reference itself (a failure here is a machinery problem, not a MatID defect)
RefSane(sg) == LET r == Ref[sg] IN
  /\ IsGroup(G(sg))
  /\ PointOrder(G(sg)) = PGOrder[r.pointgroup]
  /\ Cardinality(G(sg)) = PGOrder[r.pointgroup] * CentringCount(r.centring)
  /\ Cardinality(PureTranslations(G(sg))) = CentringCount(r.centring)
  /\ Sohncke(G(sg)) <=> r.pointgroup \in ChiralPG
  /\ \A g \in G(sg) : MatMul(MatMul(Transpose(g.R), Metric(SystemOf(sg))), g.R) = Metric(SystemOf(sg))

---------------------------------------------------------------------------
\* (1) SPACE_GROUP_INFO
InfoSystem(sg) == Tab[sg].system = SystemOf(sg)
InfoBravais(sg) == LET b == Tab[sg].bravais IN
  /\ Len(b) = 2
  /\ SubSeq(b, 1, 1) = FamilyLetter(SystemOf(sg))
  /\ MergeSide(SubSeq(b, 2, 2)) = MergeSide(Ref[sg].centring)
InfoPointGroup(sg) == Tab[sg].pointgroup = Ref[sg].pointgroup
\* the centring translations listed with the Wyckoff sets are those of the reference group
CentringTranslations(sg) ==
  {VMod(Tab[sg].trans[k], U) : k \in 1..Len(Tab[sg].trans)} \cup {<<0,0,0>>} = PureTranslations(G(sg))

GroupVerdict(sg) ==
  IF ~RefSane(sg) THEN "HARNESS-RefSane"
  ELSE IF ~InfoSystem(sg) THEN "InfoSystem" ELSE IF ~InfoBravais(sg) THEN "InfoBravais"
  ELSE IF ~InfoPointGroup(sg) THEN "InfoPointGroup" ELSE IF ~CentringTranslations(sg) THEN "CentringTranslations"
  ELSE "ok"

---------------------------------------------------------------------------
\* (2) WYCKOFF_SETS: position k of group sg
Pos(sg, k) == Tab[sg].pos[k]
OnGrid(p) == /\ \A e \in 1..Len(p.nm) : \A i \in 1..3 : \A j \in 1..3 : p.nm[e][i][j] # OFFGRID
             /\ \A e \in 1..Len(p.nc) : \A i \in 1..3 : p.nc[e][i] # OFFGRID
\* algebraic expressions (parsed independently) equal the numeric matrices and constants
ExprEqualsMatrix(p) == /\ Len(p.pm) = Len(p.nm) /\ Len(p.pc) = Len(p.nc) /\ Len(p.pm) = Len(p.pc)
                       /\ \A e \in 1..Len(p.pm) : p.pm[e] = p.nm[e] /\ p.pc[e] = p.nc[e]
Trans0(sg) == {VMod(Tab[sg].trans[k], U) : k \in 1..Len(Tab[sg].trans)} \cup {<<0,0,0>>}
\* all listed expressions x centring translations, as affine maps modulo the lattice
Listed(sg, p) == {<<p.nm[e], VMod(VAdd(p.nc[e], t), U)>> : e \in 1..Len(p.nm), t \in Trans0(sg)}
\* orbit of the first expression under the reference group
OrbitOfFirst(sg, p) == {<<MatMul(g.R, p.nm[1]), VMod(VAdd(MatVec(g.R, p.nc[1]), g.t), U)>> : g \in G(sg)}
OrbitClosed(sg, p) == OrbitOfFirst(sg, p) = Listed(sg, p)
\* multiplicity: no expression is listed twice, so |listed| = number of expressions x centring count = orbit size
Multiplicity(sg, p) == Cardinality(Listed(sg, p)) = Len(p.nm) * Cardinality(Trans0(sg))
VarIndex(v) == CASE v = "x" -> 1 [] v = "y" -> 2 [] v = "z" -> 3
Occurring(p) == {i \in 1..3 : \E e \in 1..Len(p.nm) : Col(p.nm[e], i) # <<0,0,0>>}
VariablesAreFree(p) == /\ {VarIndex(p.vars[k]) : k \in 1..Len(p.vars)} = Occurring(p)
                       /\ Cardinality(Occurring(p)) = Rank3(p.nm[1])
\* the analyzer solves parameters from the first occurrence of multiplier 1 in the first expression:
\* every free variable must have such an occurrence *in its own row* (W[idx] = R[idx] - C[idx])
\* or the verification against the orbit must be able to reject; recorded as design information.
SolvableFromFirst(p) == \A i \in Occurring(p) : \E j \in 1..3 : p.nm[1][j][i] = 1

PosVerdict(sg, k) == LET p == Pos(sg, k) IN
  IF ~OnGrid(p) THEN "OnGrid" ELSE IF ~ExprEqualsMatrix(p) THEN "ExprEqualsMatrix"
  ELSE IF ~Multiplicity(sg, p) THEN "Multiplicity" ELSE IF ~OrbitClosed(sg, p) THEN "OrbitClosed"
  ELSE IF ~VariablesAreFree(p) THEN "VariablesAreFree" ELSE "ok"

---------------------------------------------------------------------------
\* (3) normalizers: entry k of group sg
Nrm(sg, k) == Tab[sg].norms[k]
NormOnGrid(n) == /\ \A i \in 1..3 : n.t[i] # OFFGRID /\ \A j \in 1..3 : n.A[i][j] # OFFGRID
                 /\ n.last = <<0, 0, 0, 1>>
NormalizerMapsGroup(sg, n) == /\ Unimodular(n.A)
                              /\ \A g \in G(sg) : Conj(n.A, n.t, g) \in G(sg)
NormalizerMetric(sg, n) == LET M == Metric(SystemOf(sg)) IN MatMul(MatMul(Transpose(n.A), M), n.A) = M
NormalizerProperIfSohncke(sg, n) == Sohncke(G(sg)) => Det(n.A) = 1
LetterIndex(sg, l) == CHOOSE k \in 1..Len(Tab[sg].pos) : Tab[sg].pos[k].letter = l
PermOf(n, l) == LET k == CHOOSE k \in 1..Len(n.pfrom) : n.pfrom[k] = l IN n.pto[k]
PermIsBijection(sg, n) == LET L == {Tab[sg].letters[k] : k \in 1..Len(Tab[sg].letters)} IN
  /\ {n.pfrom[k] : k \in 1..Len(n.pfrom)} = L
  /\ {n.pto[k] : k \in 1..Len(n.pto)} = L
  /\ Len(n.pfrom) = Cardinality(L)
\* the normalizer carries the points of letter l exactly onto the points of letter perm[l]
MapsLetter(sg, n, l) == LET p == Pos(sg, LetterIndex(sg, l))
                            q == Pos(sg, LetterIndex(sg, PermOf(n, l)))
                            M1 == MatMul(n.A, p.nm[1])
                            c1 == VAdd(MatVec(n.A, p.nc[1]), n.t)
                        IN \E e \in 1..Len(q.nm) : \E t \in Trans0(sg) : SameImage(M1, c1, q.nm[e], VAdd(q.nc[e], t))
NormalizerPermutation(sg, n) == /\ PermIsBijection(sg, n)
                                /\ \A k \in 1..Len(Tab[sg].letters) : MapsLetter(sg, n, Tab[sg].letters[k])

NormVerdict(sg, k) == LET n == Nrm(sg, k) IN
  IF ~NormOnGrid(n) THEN "NormOnGrid" ELSE IF ~NormalizerMapsGroup(sg, n) THEN "NormalizerMapsGroup"
  ELSE IF ~NormalizerMetric(sg, n) THEN "NormalizerMetric"
  ELSE IF ~NormalizerProperIfSohncke(sg, n) THEN "NormalizerProperIfSohncke"
  ELSE IF ~NormalizerPermutation(sg, n) THEN "NormalizerPermutation" ELSE "ok"

---------------------------------------------------------------------------
\* task enumeration: one state per table entry
Tasks == {<<"group", sg, 0>> : sg \in 1..Len(Tab)}
         \cup {<<"pos", sg, k>> : sg \in 1..Len(Tab), k \in 1..64}
         \cup {<<"norm", sg, k>> : sg \in 1..Len(Tab), k \in 1..64}
Exists(t) == CASE t[1] = "group" -> TRUE
               [] t[1] = "pos" -> t[3] <= Len(Tab[t[2]].pos)
               [] t[1] = "norm" -> t[3] <= Len(Tab[t[2]].norms)
TaskVerdict(t) == CASE t[1] = "group" -> GroupVerdict(t[2])
                    [] t[1] = "pos" -> PosVerdict(t[2], t[3])
                    [] t[1] = "norm" -> NormVerdict(t[2], t[3])

VARIABLES task, done
vars == <<task, done>>
Init == task \in {t \in Tasks : Exists(t)} /\ done = FALSE
Next == /\ ~done
        /\ LET v == TaskVerdict(task) IN IF v = "ok" THEN TRUE ELSE PrintT(<<"FAIL", task[1], task[2], task[3], v>>)
        /\ done' = TRUE /\ UNCHANGED task
Spec == Init /\ [][Next]_vars
\* the number of Sohncke types is a theorem of the reference: 65
SohnckeCount == Cardinality({sg \in 1..Len(Ref) : Sohncke(G(sg))}) = 65
ASSUME Len(Tab) = 230 /\ Len(Ref) = 230
=============================================================================
