------------------------------- MODULE Radii -------------------------------
(* C19 design model: the resolution rule as a one-step state machine over Presets x 1..ZMax. *)
EXTENDS RadiiDefs

VARIABLES preset, z, r
vars == <<preset, z, r>>

Init == preset \in Presets /\ z \in 1..ZMax /\ r = Undefined - 1   \* "not yet resolved"
DoResolve == /\ r = Undefined - 1
             /\ r' = Resolve(preset, z)
             /\ UNCHANGED <<preset, z>>
Next == DoResolve
Spec == Init /\ [][Next]_vars

Resolved == r # Undefined - 1
\* every element with either radius gets a finite positive value under vdw_covalent
FallbackFinitePositive ==
  (Resolved /\ preset = "vdw_covalent" /\ (Ref.vdw[z] # Undefined \/ Ref.covalent[z] # Undefined)) => r > 0
\* vdw_covalent prefers vdW where one is defined
PrefersVdw == (Resolved /\ preset = "vdw_covalent" /\ Ref.vdw[z] # Undefined) => r = Ref.vdw[z]
\* the covalent table is total over 1..ZMax (so the fallback always exists)
CovalentTotal == Ref.covalent[z] > 0
=============================================================================
