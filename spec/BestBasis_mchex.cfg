SPECIFICATION Spec
CONSTANT G <- GHex
CONSTANTS NMax = 3
 Met = {1, 2}
 EqualMetrics = TRUE
INVARIANT Total
INVARIANT Independent
INVARIANT PrimitiveWhenAvailable
INVARIANT OrderIndependent
CHECK_DEADLOCK FALSE
