------------------------------ MODULE TraceDim ------------------------------
(* C09: recorded calls of matid.geometry.get_dimensionality(..., return_clusters=True) judged against
   the definition (Dimensionality!DefDim).
     ev = "zdim": Z-world input (integer cell / positions, zero radii, threshold^2 = thr2x2/2); the bonding
                  network is computed here, in the spec, from the integers.
     ev = "edim": real-valued input; the labelled edge list was extracted by the harness with a brute-force
                  image sum and an ambiguity margin (samples with a pair within 1e-6 of the threshold are
                  discarded by the harness and never reach this spec). *)
EXTENDS Dimensionality, Json, IOUtils

Tr == ndJsonDeserialize(IOEnv.TRACE_FILE)
ToSetS(s) == {s[k] : k \in 1..Len(s)}

\* the box of multipliers covers every image that can be within the threshold of any pair:
\* Kb * height >= |d| + t  follows from  Kb^2 h^2 >= 2 (d^2 + t^2) = 4 * ((d^2 + t^2) / 2)
BoxCovers(e) == LET d2max == Max({Norm2(VSub(e.pos[a], e.pos[b])) : a \in 1..Len(e.pos), b \in 1..Len(e.pos)})
                    half == (d2max + (e.thr2x2 + 1) \div 2 + 1) \div 2 + 1
                IN SafeK(e.Kb, Periodic(e.cell, e.pbc), half)
EdgesZ(e) == EdgesOf(e.cell, e.pbc, e.pos, e.thr2x2, e.Kb)
EdgesL(e) == Sym({<<e.edges[k][1], e.edges[k][2], <<e.edges[k][3], e.edges[k][4], e.edges[k][5]>>>> : k \in 1..Len(e.edges)})

JudgeV(e, E) == LET atoms == 1..e.n
                    got == {ToSetS(e.clusters[k]) : k \in 1..Len(e.clusters)}
                IN Only({ IF got # comps THEN "ComponentsOfBondingGraph"
                          ELSE Only({ IF (want = None) # (e.dim = None) THEN "NoneIffDisconnected"
                                      ELSE IF e.dim # want THEN "DimIsRankOfCycleLattice" ELSE "ok"
                                      : want \in {DefDim(E, atoms)} })
                          : comps \in {Components(E, atoms)} })
\* the edge set is bound once (singleton-set binding), not re-evaluated at every use
Judge(e, E0) == Only({JudgeV(e, E) : E \in {E0}})
Verdict(e) == CASE e.ev = "zdim" -> IF ~BoxCovers(e) THEN "HARNESS-BoxCovers" ELSE Judge(e, EdgesZ(e))
                [] e.ev = "edim" -> Judge(e, EdgesL(e))
                [] OTHER -> "HARNESS-unknown-event"

VARIABLES i, done
vars == <<i, done>>
Init == i \in 1..Len(Tr) /\ done = FALSE
Next == /\ ~done
        /\ LET v == Verdict(Tr[i]) IN IF v = "ok" THEN TRUE ELSE PrintT(<<"FAIL", Tr[i].tid, v>>)
        /\ done' = TRUE /\ i' = i
Spec == Init /\ [][Next]_vars
=============================================================================
