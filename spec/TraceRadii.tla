----------------------------- MODULE TraceRadii -----------------------------
(* Validates recorded executions of matid.geometry.get_radii / get_dimensionality /
   SBC.get_clusters against Radii.  One record = one state; verdict lines name the
   failing clause. *)
EXTENDS RadiiDefs

Tr == ndJsonDeserialize(IOEnv.TRACE_FILE)
VARIABLES i, done
tvars == <<i, done>>

\* ev = "resolve": get_radii(preset, [z]) returned val (1e-4 A, -1 for NaN)
Documented(e) == e.val = Resolve(e.preset, e.z)
\* ev = "custom": a custom per-atom array comes back unchanged
CustomUnchanged(e) == e.out = e.inp
\* ev = "equiv": result with the preset = result with the resolved numbers passed as an array
PresetEqualsArray(e) == e.with_preset = e.with_array
\* the array handed to the code must be the spec's own resolution (harness sanity, not a verdict on matid)
ArrayIsResolved(e) == \A k \in 1..Len(e.zs) : e.array[k] = Resolve(e.preset, e.zs[k])

Verdict(e) ==
  CASE e.ev = "resolve" -> IF Documented(e) THEN "ok" ELSE "Documented"
    [] e.ev = "resolve_many" -> IF \A k \in 1..Len(e.zs) : e.vals[k] = Resolve(e.preset, e.zs[k]) THEN "ok" ELSE "DocumentedPerElement"
    [] e.ev = "custom" -> IF CustomUnchanged(e) THEN "ok" ELSE "CustomUnchanged"
    [] e.ev = "equiv" -> IF ~ArrayIsResolved(e) THEN "HARNESS-ArrayIsResolved"
                         ELSE IF PresetEqualsArray(e) THEN "ok" ELSE "PresetEqualsArray"
    [] OTHER -> "HARNESS-unknown-event"

TInit == i \in 1..Len(Tr) /\ done = FALSE
TNext == /\ ~done
         /\ LET v == Verdict(Tr[i]) IN IF v = "ok" THEN TRUE ELSE PrintT(<<"FAIL", Tr[i].tid, v>>)
         /\ done' = TRUE /\ i' = i
TSpec == TInit /\ [][TNext]_tvars
=============================================================================
