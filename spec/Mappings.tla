------------------------------ MODULE Mappings ------------------------------
(* How SymmetryAnalyzer carries per-atom labels (Wyckoff letters, orbit numbers) from the atoms of the input to the
   atoms of spglib's primitive and standardized cells (_get_spglib_primitive_to_original_mapping,
   _get_spglib_wyckoff_letters_primitive / _conventional, _get_spglib_equivalent_atoms_... ):

       rep       = np.unique(mapping_to_primitive, return_index=True)[1]     one input atom per primitive atom
       primLabel = label[rep]
       convLabel = primLabel[std_mapping_to_primitive]

   Design model: every dataset with NOrig input atoms, NPrim primitive atoms (labelled 0..NPrim-1, every label used:
   spglib's guarantee) and NConv standardized atoms; labels are constant on the fibres of mapping_to_primitive
   (translationally equivalent atoms).  Property: every standardized atom receives the label of the input atoms that
   are its translational copies - whatever the order in which the input atoms are listed.

   Variant = "unique"         the code                                                   -> LabelsCarried holds
   Variant = "first_increase" representatives where the mapping value exceeds its predecessor (seeded change C06-6)
   Variant = "arange"         the first NPrim input atoms (seeded change C12-6)          -> both refuted by TLC
   The binding to the code is clause DatasetCarried of Crystal.tla (C12), evaluated on the spglib dataset and the
   letters / orbit numbers the analyzer returned for it. *)
EXTENDS Integers, Sequences, FiniteSets, TLC

CONSTANTS NOrig, NPrim, NConv, Variant
Labels == {"a", "b", "c"}
PrimIdx == 0..(NPrim - 1)

VARIABLES m2p,     \* input atom (1..NOrig) -> primitive atom
          s2p,     \* standardized atom (1..NConv) -> primitive atom
          lab,     \* label of each primitive atom (what the input atoms of that fibre carry)
          done
vars == <<m2p, s2p, lab, done>>

Surj(f, n) == {f[k] : k \in 1..n} = PrimIdx
Init == /\ m2p \in {f \in [1..NOrig -> PrimIdx] : Surj(f, NOrig)}
        /\ s2p \in {f \in [1..NConv -> PrimIdx] : Surj(f, NConv)}
        /\ lab \in [PrimIdx -> Labels]
        /\ done = FALSE

InputLabel(o) == lab[m2p[o]]
Min(S) == CHOOSE x \in S : \A y \in S : x <= y
\* np.unique(..., return_index=True): sorted distinct values, index of the first occurrence of each
RepUnique == [k \in PrimIdx |-> Min({o \in 1..NOrig : m2p[o] = k})]
\* positions where the mapping value grows (np.flatnonzero(np.diff(mapping, prepend=-1) > 0)), in order
GrowAt == {o \in 1..NOrig : m2p[o] > (IF o = 1 THEN -1 ELSE m2p[o - 1])}
RECURSIVE Nth(_, _)
Nth(S, k) == IF k = 0 THEN Min(S) ELSE Nth(S \ {Min(S)}, k - 1)
RepGrow == [k \in PrimIdx |-> IF Cardinality(GrowAt) > k THEN Nth(GrowAt, k) ELSE 1]
RepArange == [k \in PrimIdx |-> k + 1]
Rep == CASE Variant = "unique" -> RepUnique [] Variant = "first_increase" -> RepGrow [] Variant = "arange" -> RepArange

PrimLabel == [k \in PrimIdx |-> InputLabel(Rep[k])]
ConvLabel == [c \in 1..NConv |-> PrimLabel[s2p[c]]]

Evaluate == ~done /\ done' = TRUE /\ UNCHANGED <<m2p, s2p, lab>>
Spec == Init /\ [][Evaluate]_vars

RepsAreTheirOwnFibre == \A k \in PrimIdx : m2p[Rep[k]] = k
LabelsCarried == done => \A c \in 1..NConv : ConvLabel[c] = lab[s2p[c]]
=============================================================================
