SPECIFICATION Spec
CONSTANTS Sizes <- SizeCatalogue
 MaxVac = 0
 Dim3 = FALSE
INVARIANT NoOverride
INVARIANT Complete
INVARIANT CompleteIdeal
INVARIANT WindingSound
INVARIANT WindingRankSound
INVARIANT EachAtomOnce
INVARIANT WindingExact
INVARIANT WindingRankExact
INVARIANT Bounded
CHECK_DEADLOCK FALSE
