SPECIFICATION Spec
CONSTANTS RMax = 24
 Variant = "round_nearest_no_clamp"
INVARIANT BinsSuffice
INVARIANT BinInRange
CHECK_DEADLOCK FALSE
