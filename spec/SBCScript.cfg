SPECIFICATION SSpec
CONSTANTS NAtoms = 4
 MergeNum = 1
 MergeDen = 2
 CleanResetsCache = TRUE
INVARIANT Emit
INVARIANT PairwiseDisjoint
INVARIANT NonEmpty
INVARIANT SpeciesConsistent
INVARIANT Connected
CHECK_DEADLOCK FALSE
