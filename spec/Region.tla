------------------------------- MODULE Region -------------------------------
(* Breadth-first region tracking of PeriodicFinder (_find_periodic_region / _find_region_rec /
   _find_new_seeds_and_cell) on an ideal crystal: one atom per prototype cell, cells on a grid that is a
   torus of Size[k] cells along periodic axes and a slab of Size[k] cells along non-periodic ones.

   State as in the code: FIFO queue of <<cell index, seed atom>>, searched_cell_indices, used_indices,
   used_points, _index_cell_map (cellOf), the search graph (edges <<source, target, multiplier>>) and the
   cells that received a LinkedUnit.  Cell indices are *unwrapped* (relative to the seed cell, they keep
   growing around the torus); atoms are identified by their wrapped grid point; None = 0-tuple <<>>.

   Properties (checked when the queue has drained):
     Complete       - every atom of the ideal crystal ends up in exactly one unit (C02 design level)
     NoOverride     - no cell index receives two units (the ValueError branch of LinkedUnitCollection)
     WindingExact   - the directions in which some edge closes onto a cell other than source + multiplier
                      are exactly the periodic directions of the crystal (C17/C18: what
                      get_connected_directions reports after fix 4514eff)
     OldHeuristicExact - the criterion as found (a node with incoming +e and -e edges) is exact on the ideal
                      crystal as well ...
     OldHeuristicSound - ... but with vacant sites it names a non-periodic direction: VIOLATED, TLC exhibits
                      3x3x1 cells periodic in x and z with two vacancies (Region_asfound.cfg, refuted variant;
                      this is the defect behind the C18 adsorbate findings, repaired by 4514eff / 94a4334)
     WindingSound / WindingRankSound - the repaired criterion never names a non-periodic direction, at any time,
                      with up to MaxVac vacant sites (Region_vac.cfg, Region_vac2d.cfg)
   With vacancies Complete reads: the units hold exactly the atoms joined to the seed through occupied
   neighbouring cells (a guess that finds no atom is queued with seed None and is never expanded). *)
EXTENDS Integers, Sequences, FiniteSets, TLC, SequencesExt

CONSTANTS Sizes,        \* set of <<sx, sy, sz>> to explore
          Dim3,         \* TRUE: 26 multipliers (3D prototype cell), FALSE: 8 in-plane multipliers (2D)
          MaxVac        \* at most this many lattice sites are vacant (0: the ideal crystal)
SmallCatalogue == {<<1,1,1>>, <<2,1,3>>, <<3,3,1>>, <<4,1,2>>, <<3,2,2>>, <<5,1,1>>}
SizeCatalogue == {<<1,1,1>>, <<2,1,3>>, <<3,3,1>>, <<3,2,4>>, <<4,4,2>>, <<3,3,3>>, <<5,3,3>>}
B == {TRUE, FALSE}
NoAtom == <<>>
Digits == <<0, 1, -1>>
Mult3 == Tail([k \in 1..27 |-> << Digits[((k - 1) \div 9) + 1], Digits[(((k - 1) \div 3) % 3) + 1], Digits[((k - 1) % 3) + 1] >>])
Mult2 == Tail([k \in 1..9 |-> << Digits[((k - 1) \div 3) + 1], Digits[((k - 1) % 3) + 1], 0 >>])
Mults == IF Dim3 THEN Mult3 ELSE Mult2

VARIABLES size, per, start, vac, queue, searched, usedIdx, usedPts, cellOf, edges, units, overrides
vars == <<size, per, start, vac, queue, searched, usedIdx, usedPts, cellOf, edges, units, overrides>>

Add(a, b) == << a[1] + b[1], a[2] + b[2], a[3] + b[3] >>
Sub(a, b) == << a[1] - b[1], a[2] - b[2], a[3] - b[3] >>
\* grid point (unwrapped, relative to the start point) -> atom, or NoAtom outside the slab
AtomAt(c) == LET p == Add(c, start) IN
  IF \E k \in 1..3 : ~per[k] /\ (p[k] < 0 \/ p[k] >= size[k]) THEN NoAtom
  ELSE LET w == << IF per[1] THEN p[1] % size[1] ELSE p[1], IF per[2] THEN p[2] % size[2] ELSE p[2], IF per[3] THEN p[3] % size[3] ELSE p[3] >>
       IN IF w \in vac THEN NoAtom ELSE w
AllSites == {<<x, y, z>> : x \in 0..(size[1] - 1), y \in 0..(size[2] - 1), z \in 0..(size[3] - 1)}
AllAtoms == AllSites \ vac
SitesOf(sz) == {<<x, y, z>> : x \in 0..(sz[1] - 1), y \in 0..(sz[2] - 1), z \in 0..(sz[3] - 1)}
CellOfDom == {p[1] : p \in cellOf}
CellOfGet(a) == (CHOOSE p \in cellOf : p[1] = a)[2]
CellOfSet(m, a, c) == {p \in m : p[1] # a} \cup {<<a, c>>}

ASSUME MaxVac \in 0..2
VacChoices(S) == {{}} \cup (IF MaxVac >= 1 THEN {{a} : a \in S} ELSE {}) \cup (IF MaxVac >= 2 THEN {{a, b} : a \in S, b \in S} ELSE {})
Init == /\ size \in Sizes /\ per \in B \X B \X B
        /\ (~Dim3 => ~per[3])
        /\ start \in {<<0, 0, 0>>, << size[1] \div 2, 0, size[3] \div 2 >>}
        /\ vac \in VacChoices(SitesOf(size) \ {start})
        /\ queue = << <<<<0, 0, 0>>, start>> >>
        /\ searched = {} /\ usedIdx = {} /\ usedPts = {} /\ cellOf = {} /\ edges = {} /\ units = {} /\ overrides = 0

\* the expansion loop of _find_new_seeds_and_cell folded over the admissible multipliers, in order
RECURSIVE Expand(_, _, _, _, _, _, _)
Expand(c, a, ms, q, used, cmap, es) ==
  IF ms = <<>> THEN [q |-> q, used |-> used, cmap |-> cmap, es |-> es]
  ELSE LET m == Head(ms)
           t == Add(c, m)
           b == AtomAt(t)
       IN IF b = NoAtom
          THEN Expand(c, a, Tail(ms), Append(q, <<t, NoAtom>>), used, cmap, es)            \* unmatched guess: queued with seed None
          ELSE LET known == \E p \in cmap : p[1] = b
                   target == IF known THEN (CHOOSE p \in cmap : p[1] = b)[2] ELSE t
                   cmap2 == IF known THEN cmap ELSE cmap \cup {<<b, t>>}
                   es2 == es \cup {<<c, target, m>>}
               IN IF b \in used THEN Expand(c, a, Tail(ms), q, used, cmap2, es2)
                  ELSE Expand(c, a, Tail(ms), Append(q, <<t, b>>), used \cup {b}, cmap2, es2)

Visit ==
  /\ queue # <<>>
  /\ LET c == Head(queue)[1]  a == Head(queue)[2]  rest == Tail(queue) IN
     IF c \in searched THEN /\ queue' = rest /\ UNCHANGED <<searched, usedIdx, usedPts, cellOf, edges, units, overrides>>
     ELSE LET cmap1 == IF a = NoAtom THEN cellOf ELSE CellOfSet(cellOf, a, c)          \* matches of the cell's own basis
              used1 == IF a = NoAtom THEN usedIdx ELSE usedIdx \cup {a}
              expand == a \notin usedPts /\ a # NoAtom
              ms == SelectSeq(Mults, LAMBDA m : Add(c, m) \notin (searched \cup {c}))
              r == IF expand THEN Expand(c, a, ms, rest, used1, cmap1, edges)
                   ELSE [q |-> rest, used |-> used1, cmap |-> cmap1, es |-> edges]
          IN /\ searched' = searched \cup {c}
             /\ usedPts' = usedPts \cup {a}
             /\ queue' = r.q /\ usedIdx' = r.used /\ cellOf' = r.cmap /\ edges' = r.es
             /\ overrides' = overrides + (IF c \in units THEN 1 ELSE 0)
             /\ units' = units \cup {c}
  /\ UNCHANGED <<size, per, start, vac>>
Next == Visit
Spec == Init /\ [][Next]_vars

Done == queue = <<>>
Periodic == {k \in 1..3 : per[k]}
NoOverride == overrides = 0
\* with in-plane multipliers only the layer of the seed can be reached
\* ... and with vacancies only atoms joined to the seed by a chain of occupied neighbouring cells (a guess that
\* finds no atom is queued with seed None and never expanded)
WrapSite(p) == IF \E k \in 1..3 : ~per[k] /\ (p[k] < 0 \/ p[k] >= size[k]) THEN NoAtom
               ELSE << IF per[1] THEN p[1] % size[1] ELSE p[1], IF per[2] THEN p[2] % size[2] ELSE p[2], IF per[3] THEN p[3] % size[3] ELSE p[3] >>
NeighAtoms(a) == {WrapSite(Add(a, Mults[i])) : i \in 1..Len(Mults)} \cap AllAtoms
RECURSIVE Closure(_)
Closure(S) == LET T == S \cup UNION {NeighAtoms(a) : a \in S} IN IF T = S THEN S ELSE Closure(T)
Reachable == Closure({start})
Complete == Done => {AtomAt(c) : c \in units} \ {NoAtom} = Reachable
\* the ideal crystal is covered entirely
CompleteIdeal == (Done /\ vac = {}) => Reachable = (IF Dim3 THEN AllAtoms ELSE {a \in AllAtoms : a[3] = start[3]})
EachAtomOnce == Done => \A c1, c2 \in units : (c1 # c2 /\ AtomAt(c1) # NoAtom) => AtomAt(c1) # AtomAt(c2)
Winding(e) == Sub(Sub(e[2], e[1]), e[3])
WindDirs == {k \in 1..3 : \E e \in edges : Winding(e)[k] # 0}
\* with 2D multipliers the third axis is never searched
Searchable == IF Dim3 THEN Periodic ELSE Periodic \ {3}
WindingExact == (Done /\ vac = {}) => WindDirs = Searchable
\* never a direction the structure is not periodic in, at any time and whatever is missing
WindingSound == WindDirs \subseteq Searchable
Unit(k) == << IF k = 1 THEN 1 ELSE 0, IF k = 2 THEN 1 ELSE 0, IF k = 3 THEN 1 ELSE 0 >>
Neg(v) == << -v[1], -v[2], -v[3] >>
OldDirs == {k \in 1..3 : \E node \in {e[2] : e \in edges} :
               /\ \E e \in edges : e[2] = node /\ e[3] = Unit(k)
               /\ \E e \in edges : e[2] = node /\ e[3] = Neg(Unit(k))}
OldHeuristicExact == (Done /\ vac = {}) => OldDirs = Searchable
OldHeuristicSound == OldDirs \subseteq Searchable
OldHeuristicComplete == Done => Searchable \subseteq OldDirs
\* rank of the winding lattice = number of independent directions in which the region closes on itself
\* (basis independent, unlike the per-axis flags): 0..3
Cross(a, b) == << a[2]*b[3] - a[3]*b[2], a[3]*b[1] - a[1]*b[3], a[1]*b[2] - a[2]*b[1] >>
Dot(a, b) == a[1]*b[1] + a[2]*b[2] + a[3]*b[3]
Zero3 == <<0, 0, 0>>
WindVecs == {Winding(e) : e \in edges} \ {Zero3}
WindRank == IF WindVecs = {} THEN 0
            ELSE LET a == CHOOSE x \in WindVecs : TRUE IN
                 IF \A b \in WindVecs : Cross(a, b) = Zero3 THEN 1
                 ELSE LET b == CHOOSE x \in WindVecs : Cross(a, x) # Zero3 IN
                      IF \A c \in WindVecs : Dot(Cross(a, b), c) = 0 THEN 2 ELSE 3
WindingRankExact == (Done /\ vac = {}) => WindRank = Cardinality(Searchable)
WindingRankSound == WindRank <= Cardinality(Searchable)
\* the walk is finite: at most (atoms + boundary guesses) cells are ever searched
Bounded == Cardinality(searched) <= 27 * Cardinality(AllSites) + 27
=============================================================================
