----------------------------- MODULE Classifier -----------------------------
(* Design model of Classifier.classify's dispatch: every environment answer for small numbers. *)
EXTENDS ClassifierDefs

\* design model
CONSTANT MaxAtoms
VARIABLES dim, natoms, hasRegion, nbasis, is2d, nconn, num, den, cls
vars == <<dim, natoms, hasRegion, nbasis, is2d, nconn, num, den, cls>>
Init == /\ dim \in {None, 0, 1, 2, 3} /\ natoms \in 1..MaxAtoms
        /\ hasRegion \in BOOLEAN /\ nbasis \in 0..MaxAtoms /\ nbasis <= natoms /\ is2d \in BOOLEAN /\ nconn \in 0..3
        /\ \E c \in {<<1, 2>>, <<0, 1>>, <<1, 1>>, <<2, 3>>} : num = c[1] /\ den = c[2]
        /\ cls = "pending"
Classify == /\ cls = "pending"
            /\ cls' = Dispatch(dim, natoms, hasRegion, nbasis, is2d, nconn, num, den)
            /\ UNCHANGED <<dim, natoms, hasRegion, nbasis, is2d, nconn, num, den>>
\* classifying again does not change the answer
Again == /\ cls # "pending" /\ cls' = Dispatch(dim, natoms, hasRegion, nbasis, is2d, nconn, num, den)
         /\ UNCHANGED <<dim, natoms, hasRegion, nbasis, is2d, nconn, num, den>>
Next == Classify \/ Again
Spec == Init /\ [][Next]_vars
Decided == cls # "pending"
M_ClassMatchesDim == Decided => ClassMatchesDim(cls, dim, natoms)
M_RefinementImplies == (Decided /\ cls \in {"Surface", "Material2D"}) =>
                          (hasRegion /\ nconn = 2 /\ Covered(nbasis, natoms, num, den) /\ (cls = "Material2D") = is2d)
M_Idempotent == [][cls # "pending" => cls' = cls]_vars
M_TypeOK == cls \in Classes \cup {"pending"}
=============================================================================
