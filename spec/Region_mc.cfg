SPECIFICATION Spec
CONSTANTS Sizes <- SizeCatalogue
 Dim3 = TRUE
INVARIANT NoOverride
INVARIANT Complete
INVARIANT EachAtomOnce
INVARIANT WindingExact
INVARIANT WindingRankExact
INVARIANT Bounded
CHECK_DEADLOCK FALSE
