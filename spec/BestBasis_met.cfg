SPECIFICATION Spec
CONSTANT G <- GCubic
CONSTANTS NMax = 3
 Met = {1, 2}
 EqualMetrics = FALSE
INVARIANT Total
INVARIANT Independent
INVARIANT OrderIndependent
CHECK_DEADLOCK FALSE
