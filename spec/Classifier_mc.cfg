SPECIFICATION Spec
CONSTANT MaxAtoms = 4
INVARIANT M_ClassMatchesDim
INVARIANT M_RefinementImplies
INVARIANT M_TypeOK
PROPERTY M_Idempotent
CHECK_DEADLOCK FALSE
