SPECIFICATION Spec
CONSTANT G <- GCubic
CONSTANTS NMax = 3
 Met = {1, 2}
 EqualMetrics = TRUE
INVARIANT Total
INVARIANT Independent
INVARIANT PrimitiveWhenAvailable
CHECK_DEADLOCK FALSE
