SPECIFICATION Spec
CONSTANTS RMax = 24
 Variant = "code"
INVARIANT BinsSuffice
INVARIANT BinInRange
CHECK_DEADLOCK FALSE
