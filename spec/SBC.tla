-------------------------------- MODULE SBC --------------------------------
(* The SBC pipeline of matid/clustering/sbc.py as a state machine, one action per loop
   iteration of the code:

     seed loop (get_clusters, lines 123-159)  ->  _merge_clusters work-list
       ->  _localize_clusters (atoms in increasing index, memberships updated in place)
       ->  _clean_clusters (largest bonded component; fills the per-cluster distance cache)

   The float-heavy part - PeriodicFinder.get_region - is the *environment*: for a seed it
   answers with a mask of tested atoms and either no region or a set of basis atoms.
   The design model lets the environment answer anything that satisfies the stated
   environment assumptions (EnvOK); TraceSBC binds the same actions to recorded answers.

   Cluster records: idx (atom set), sp (species filter), reg (size of the region the
   cluster inherited), mg (created by a merge), cache (index set for which the per-cluster
   distance matrix was cut out; NoCache if not yet), dim (cached dimensionality flag). *)
EXTENDS Integers, Sequences, FiniteSets, TLC, FiniteSetsExt, SequencesExt

CONSTANTS NAtoms,            \* number of atoms of the design model (the trace spec sets n per execution)
          MergeNum, MergeDen, \* merge_threshold of the design model, as a rational
          CleanResetsCache   \* TRUE: _clean_clusters drops the cached matrix after rewriting the indices (repaired code)
                             \* FALSE: the cache keeps the pre-cleaning index set (the code as found, DESIGN 6 #1)
NoCache == {0}               \* sentinel: 0 is not an atom

VARIABLES n, thr, pc, Z, Bond, Near, remaining, clusters, iso, cur, omap, asked
vars == <<n, thr, pc, Z, Bond, Near, remaining, clusters, iso, cur, omap, asked>>
\* n: number of atoms;  thr = <<num, den>>: merge_threshold;  Z: atom -> species;
\* Bond: atom -> set of atoms bonded to it under bond_threshold (symmetric, irreflexive);
\* Near: atom -> set of atoms within merge_radius;  asked: clusters whose dimensionality was queried
Atoms == 1..n

Species(S) == {Z[a] : a \in S}
Mk(idx, sp, reg, mg) == [idx |-> idx, sp |-> sp, reg |-> reg, mg |-> mg, cache |-> NoCache]

\* connected components of Bond restricted to S
RECURSIVE Bfs(_, _, _)
Bfs(S, visited, frontier) ==
  IF frontier = {} THEN visited
  ELSE LET new == ((UNION {Bond[a] : a \in frontier}) \cap S) \ visited
       IN Bfs(S, visited \cup new, new)
Comp(a, S) == Bfs(S, {a}, {a})                      \* component of a inside S
Comps(S) == {Comp(a, S) : a \in S}
\* keep is a largest bonded component of S (written so that it is cheap when S \ keep is small)
IsLargestComp(keep, S) == /\ keep # {} /\ keep \subseteq S
                          /\ \E a \in keep : Comp(a, S) = keep
                          /\ \A b \in S \ keep : Cardinality(Comp(b, S \ keep)) <= Cardinality(keep)

---------------------------------------------------------------------------
\* environment assumptions on one get_region answer (checked on every real trace)
EnvOK(s, mask, grain) == /\ s \in mask                       \* the seed itself is always "tested"
                         /\ \A a \in mask : Z[a] = Z[s]       \* only atoms of the seed's species are tested
                         /\ grain \subseteq Atoms

\* lines 123-159: one iteration of the seed loop.  hasGrain = FALSE <=> get_region returned None
SeedStep(s, mask, hasGrain, grain) ==
  /\ pc = "seed" /\ s \in remaining
  /\ EnvOK(s, mask, grain)
  /\ IF hasGrain
     THEN LET ii == {s} \cup grain IN
          /\ remaining' = (remaining \ mask) \ ii
          /\ clusters' = Append(clusters, Mk(ii, Species(ii), Cardinality(grain), FALSE))
     ELSE /\ remaining' = remaining \ mask
          /\ UNCHANGED clusters
  /\ UNCHANGED <<n, thr, pc, Z, Bond, Near, iso, cur, omap, asked>>
SeedDone == /\ pc = "seed" /\ remaining = {} /\ pc' = "merge"
            /\ UNCHANGED <<n, thr, Z, Bond, Near, remaining, clusters, iso, cur, omap, asked>>

---------------------------------------------------------------------------
\* _merge_clusters
Ov(a, b) == Cardinality(a.idx \cap b.idx)
Merge(a, b) ==   \* merge(system, a = popped cluster, b = best overlapping cluster)
  LET aBig == Cardinality(a.idx) > Cardinality(b.idx)
      tgt == IF aBig THEN a ELSE b
      src == IF aBig THEN b ELSE a
      common == {x \in src.idx : Z[x] \in tgt.sp}
      \* sorted([a.region, b.region], key=len)[-1]: the larger region, b's on ties (stable sort)
      reg == IF a.reg > b.reg THEN a.reg ELSE b.reg
  IN [idx |-> tgt.idx \cup common, sp |-> tgt.sp, reg |-> reg, mg |-> TRUE, cache |-> NoCache]
MergeStep ==
  /\ pc = "merge" /\ (IF Len(clusters) > 0 THEN ~clusters[1].mg ELSE FALSE)
  /\ LET i == clusters[1]
         rest == Tail(clusters)
     IN IF Len(rest) = 0 THEN /\ iso' = Append(iso, i) /\ clusters' = rest
        ELSE LET bo == Max({Ov(i, rest[j]) : j \in 1..Len(rest)})
                 best == Min({j \in 1..Len(rest) : Ov(i, rest[j]) = bo})     \* stable sort: first maximum
                 t == rest[best]
                 \* max(bo/|i|, bo/|t|) > merge_threshold
                 big == bo * thr[2] > thr[1] * Cardinality(i.idx) \/ bo * thr[2] > thr[1] * Cardinality(t.idx)
             IN IF big THEN /\ clusters' = Append(RemoveAt(rest, best), Merge(i, t)) /\ iso' = iso
                ELSE /\ iso' = Append(iso, i) /\ clusters' = rest
  /\ UNCHANGED <<n, thr, pc, Z, Bond, Near, remaining, cur, omap, asked>>
MergeDone ==
  /\ pc = "merge" /\ (IF Len(clusters) = 0 THEN TRUE ELSE clusters[1].mg)
  /\ pc' = "localize" /\ clusters' = iso \o clusters /\ iso' = <<>> /\ cur' = 1
  /\ omap' = [a \in Atoms |-> {j \in 1..Len(iso \o clusters) : a \in (iso \o clusters)[j].idx}]
  /\ UNCHANGED <<n, thr, Z, Bond, Near, remaining, asked>>

---------------------------------------------------------------------------
\* _localize_clusters: atom `cur`; overlap_map was computed once (omap), memberships are updated in place
LocalizeStep ==
  /\ pc = "localize" /\ cur <= n
  /\ LET ics == omap[cur] IN
     IF Cardinality(ics) <= 1 THEN UNCHANGED clusters
     ELSE LET sur == {cur} \cup Near[cur]
              nn(j) == Cardinality(clusters[j].idx \cap sur)
              mx == Max({nn(j) : j \in ics})
              \* first cluster with a strictly larger count; the first listed one if all counts are 0
              win == IF mx = 0 THEN Min(ics) ELSE Min({j \in ics : nn(j) = mx})
          IN clusters' = [j \in 1..Len(clusters) |->
                 IF j \in ics /\ j # win THEN [clusters[j] EXCEPT !.idx = @ \ {cur}] ELSE clusters[j]]
  /\ cur' = cur + 1
  /\ UNCHANGED <<n, thr, pc, Z, Bond, Near, remaining, iso, omap, asked>>
LocalizeDone == /\ pc = "localize" /\ cur > n /\ pc' = "clean" /\ cur' = 1 /\ iso' = <<>>
                /\ UNCHANGED <<n, thr, Z, Bond, Near, remaining, clusters, omap, asked>>

---------------------------------------------------------------------------
\* _clean_clusters: cluster number `cur`.  keep = the component that survives (any largest one).
CleanStep(keep) ==
  /\ pc = "clean" /\ cur <= Len(clusters)
  /\ LET c == clusters[cur] IN
     IF c.idx = {} THEN /\ iso' = iso          \* DBSCAN raises on an empty matrix: the cluster is not reported
                        /\ keep = {}
     ELSE /\ IsLargestComp(keep, c.idx)
          /\ iso' = Append(iso, [c EXCEPT !.idx = keep,
                                          !.cache = IF CleanResetsCache THEN NoCache ELSE c.idx])
  /\ cur' = cur + 1
  /\ UNCHANGED <<n, thr, pc, Z, Bond, Near, remaining, clusters, omap, asked>>
CleanDone == /\ pc = "clean" /\ cur > Len(clusters) /\ pc' = "done" /\ clusters' = iso /\ iso' = <<>>
             /\ UNCHANGED <<n, thr, Z, Bond, Near, remaining, cur, omap, asked>>

---------------------------------------------------------------------------
\* ClusterObj: Cluster.get_dimensionality() on returned cluster j.  The distance matrix is cut out
\* for the index set the cluster has at the first call and kept; the result is computed from that matrix
\* and the *current* atoms.
GetDim(j) ==
  /\ pc = "done" /\ j \in 1..Len(clusters)
  /\ clusters' = [clusters EXCEPT ![j].cache = IF @ = NoCache THEN clusters[j].idx ELSE @]
  /\ asked' = asked \cup {j}
  /\ UNCHANGED <<n, thr, pc, Z, Bond, Near, remaining, iso, cur, omap>>

Next == \/ \E s \in remaining : \E mask \in SUBSET {a \in Atoms : Z[a] = Z[s]} :
             \/ SeedStep(s, mask, FALSE, {})
             \/ \E grain \in SUBSET Atoms : SeedStep(s, mask, TRUE, grain)
        \/ SeedDone \/ MergeStep \/ MergeDone \/ LocalizeStep \/ LocalizeDone
        \/ \E keep \in SUBSET Atoms : CleanStep(keep)
        \/ CleanDone
        \/ \E j \in 1..Len(clusters) : GetDim(j)

\* adjacency function of a set of 2-element sets
AdjOf(m, E) == [a \in 1..m |-> {b \in 1..m : {a, b} \in E}]
Init == /\ n = NAtoms /\ thr = <<MergeNum, MergeDen>>
        /\ pc = "seed"
        /\ Z \in [1..NAtoms -> 1..2]
        /\ \E B \in SUBSET kSubset(2, 1..NAtoms) : \E Nr \in SUBSET kSubset(2, 1..NAtoms) :
              /\ B \subseteq Nr                                     \* bond_threshold < merge_radius
              /\ Bond = AdjOf(NAtoms, B) /\ Near = AdjOf(NAtoms, Nr)
        /\ remaining = 1..NAtoms /\ clusters = <<>> /\ iso = <<>> /\ cur = 0 /\ omap = <<>> /\ asked = {}
Spec == Init /\ [][Next]_vars

---------------------------------------------------------------------------
\* C01 (the part that does not depend on the geometry of get_region's answers)
Final == pc = "done"
NonEmpty == Final => \A j \in 1..Len(clusters) : clusters[j].idx # {}
InRange == \A j \in 1..Len(clusters) : clusters[j].idx \subseteq Atoms
PairwiseDisjoint == Final => \A i, j \in 1..Len(clusters) : i < j => clusters[i].idx \cap clusters[j].idx = {}
SpeciesConsistent == Final => \A j \in 1..Len(clusters) : Species(clusters[j].idx) \subseteq clusters[j].sp
Connected == Final => \A j \in 1..Len(clusters) : Cardinality(Comps(clusters[j].idx)) = 1
\* every returned cluster descends from a region answer (so it has a prototype cell)
HasRegion == \A j \in 1..Len(clusters) : clusters[j].reg >= 0
\* the seed loop terminates: every iteration removes at least the seed (needs s \in mask)
SeedProgress == [][pc = "seed" /\ pc' = "seed" => Cardinality(remaining') < Cardinality(remaining)]_vars
\* every LocalizeStep of this model is a step of proofs/Localize.tla, for which pairwise disjointness at the end of
\* the loop is *proved* with TLAPS for arbitrary numbers of atoms and clusters
HoldersOf(a) == {j \in 1..Len(clusters) : a \in clusters[j].idx}
LocalizeRefinesProvedStep ==
  [][(pc = "localize" /\ pc' = "localize") =>
       \E w \in 1..(Len(clusters) + 1) :
          /\ (HoldersOf(cur) # {} => w \in HoldersOf(cur))
          /\ \A j \in 1..Len(clusters) : clusters'[j].idx = (IF j # w THEN clusters[j].idx \ {cur} ELSE clusters[j].idx)]_vars
\* get_clusters returns: under weak fairness of the pipeline's own steps the state "done" is reached
\* (the seed loop shrinks `remaining`, the merge work-list ends with a merged head or empty, localize and clean count up)
Pipeline == SeedDone \/ MergeStep \/ MergeDone \/ LocalizeStep \/ LocalizeDone \/ CleanDone
            \/ (\E keep \in SUBSET Atoms : CleanStep(keep))
            \/ (\E s \in remaining : \E mask \in SUBSET {a \in Atoms : Z[a] = Z[s]} :
                   SeedStep(s, mask, FALSE, {}) \/ \E grain \in SUBSET Atoms : SeedStep(s, mask, TRUE, grain))
FairSpec == Spec /\ WF_vars(Pipeline)
Terminates == <>(pc = "done")
\* C13: the matrix used by the shortcut belongs to the cluster's current atoms
CacheCoherent == Final => \A j \in 1..Len(clusters) : clusters[j].cache = NoCache \/ clusters[j].cache = clusters[j].idx
\* C02 (pipeline part): if the first region answer covers every atom, exactly one complete cluster comes out
\* whenever the atoms form one bonded component
TypeOK == /\ pc \in {"seed", "merge", "localize", "clean", "done"}
          /\ remaining \subseteq Atoms
=============================================================================
