------------------------------ MODULE BestBasis ------------------------------
(* PeriodicFinder._find_best_basis / _find_best_2d_basis (matid/core/periodicfinder.py): the choice of the
   prototype cell's basis among the candidate spans (growth beyond the listed clauses; the step between the
   span graph and the region tracking, behind C02 / C04 / C18).

   The code works on floats; on *integer* span vectors (lattice vectors expressed in an orthonormal frame,
   which is what an ideal cubic-based crystal produces up to a common scale and a rotation) every quantity it
   compares is a rational number, so the selection rule can be stated exactly:

     three-dimensional  a triple (i < j < k) is admissible when each vector makes at least the angle ANGLE_TOL
                        with the plane of the other two:  det^2 >= sin^2(tol) |a|^2 |b x c|^2  (and cyclic);
                        among the admissible triples keep those with the largest metric sum, of these the ones
                        whose volume |det| is within (1 + CELL_SIZE_TOL) of the smallest, of these one with
                        the largest  sum |a^ x b^|^2  (most orthogonal);
     two-dimensional    (exactly two spans, or no admissible triple) pairs with  sin^2 >= sin^2(tol),
                        largest metric sum, area strictly below (1 + CELL_SIZE_TOL) of the smallest,
                        largest sin;
     one-dimensional    (no admissible pair) the shortest span.
   (volume |det|, area |a x b| and the angles are written through scalar products, see the Gram matrix G below,
    so the same rule is exact in any lattice frame with integer scalar products - cubic and hexagonal ones are used)

   Best(sp, me) is the *set* of answers the rule allows (exact ties leave the choice open; floating point may
   break them either way).  Inputs on which a float comparison sits within 1 % of a threshold, or exactly on
   the volume / area boundary, are Ambiguous: any answer of the right dimension is accepted for them and they
   are counted separately.

   Two uses:
     BestBasis_mc.cfg   design level: every set of <= NMax spans from the universe U with metrics in Met:
                        Total, Independent, PrimitiveWhenAvailable, OrderIndependent
     BestBasis_anymetric.cfg  refuted variant (vacuity guard): a unit-volume triple is NOT chosen in general
                        when the metrics differ - the metric filter comes first
     TraceBestBasis     binding: the real function called on the same integer inputs (scaled, rotated) *)
EXTENDS Integers, Sequences, FiniteSets, TLC

Abs(x) == IF x < 0 THEN -x ELSE x
\* The spans are integer coordinate vectors in a lattice frame whose Gram matrix G (scalar products of the frame
\* vectors, integers) is a parameter: G = identity is the orthonormal frame, <<2,-1,0>>,<<-1,2,0>>,<<0,0,g>> a hexagonal one.
\* Everything the rule compares is expressed through scalar products:  |a x b|^2 = |a|^2 |b|^2 - (a.b)^2  and
\* det(a,b,c)^2 = the Gram determinant of the three vectors.
CONSTANT G
Dot(a, b) == LET r(i) == G[i][1] * b[1] + G[i][2] * b[2] + G[i][3] * b[3] IN a[1] * r(1) + a[2] * r(2) + a[3] * r(3)
N2(a) == Dot(a, a)
N2Cross(a, b) == N2(a) * N2(b) - Dot(a, b) * Dot(a, b)
Det2(a, b, c) == LET aa == Dot(a, a) bb == Dot(b, b) cc == Dot(c, c) ab == Dot(a, b) ac == Dot(a, c) bc == Dot(b, c) IN
    aa * (bb * cc - bc * bc) - ab * (ab * cc - bc * ac) + ac * (ab * bc - bb * ac)
DetG == Det2(<<1, 0, 0>>, <<0, 1, 0>>, <<0, 0, 1>>)

\* sin^2(20 deg) = 0.116978 as S2 / DEN (0.02 % off; inputs within 1 % of the threshold are Ambiguous) (constants.ANGLE_TOL = 20; the harness checks the live constant)
S2 == 117
DEN == 1000
\* constants.CELL_SIZE_TOL = 0.25:  V <= 1.25 Vmin  <=>  4 V <= 5 Vmin
TolNum == 5
TolDen == 4

\* ---- comparison with the angle threshold:  x / y >= S2 / DEN  with x, y >= 0
AboveThr(x, y) == y > 0 /\ x * DEN >= S2 * y
NearThr(x, y) == y > 0 /\ Abs(x * DEN - S2 * y) <= (S2 * y) \div 100

\* ---- triples
Triples(n) == {t \in (1..n) \X (1..n) \X (1..n) : t[1] < t[2] /\ t[2] < t[3]}
D2(sp, t) == Det2(sp[t[1]], sp[t[2]], sp[t[3]])
AngTerms(sp, t) == LET a == sp[t[1]] b == sp[t[2]] c == sp[t[3]] IN
    {N2(a) * N2Cross(b, c), N2(b) * N2Cross(c, a), N2(c) * N2Cross(a, b)}
Admissible3(sp, t) == \A y \in AngTerms(sp, t) : AboveThr(D2(sp, t), y)
Near3(sp, t) == \E y \in AngTerms(sp, t) : NearThr(D2(sp, t), y)
MSum(me, t) == IF Len(t) = 3 THEN me[t[1]] + me[t[2]] + me[t[3]] ELSE me[t[1]] + me[t[2]]
Vol2(sp, t) == Det2(sp[t[1]], sp[t[2]], sp[t[3]])   \* squared volume
\* orthogonality score as a fraction  OrthoN / OrthoD  (larger = more orthogonal)
OrthoD(sp, t) == N2(sp[t[1]]) * N2(sp[t[2]]) * N2(sp[t[3]])
OrthoN(sp, t) == LET a == sp[t[1]] b == sp[t[2]] c == sp[t[3]] IN
    N2Cross(a, b) * N2(c) + N2Cross(c, a) * N2(b) + N2Cross(b, c) * N2(a)
MoreOrEqOrtho(sp, s, t) == OrthoN(sp, s) * OrthoD(sp, t) >= OrthoN(sp, t) * OrthoD(sp, s)

Adm3(sp) == {t \in Triples(Len(sp)) : Admissible3(sp, t)}
MaxMetric(me, S) == {t \in S : \A u \in S : MSum(me, t) >= MSum(me, u)}
SmallVol(sp, S) == {t \in S : \A u \in S : TolDen * TolDen * Vol2(sp, t) <= TolNum * TolNum * Vol2(sp, u)}
MostOrtho(sp, S) == {t \in S : \A u \in S : MoreOrEqOrtho(sp, t, u)}
Best3(sp, me) == MostOrtho(sp, SmallVol(sp, MaxMetric(me, Adm3(sp))))

\* ---- pairs
Pairs(n) == {t \in (1..n) \X (1..n) : t[1] < t[2]}
Sin2N(sp, t) == N2Cross(sp[t[1]], sp[t[2]])
Sin2D(sp, t) == N2(sp[t[1]]) * N2(sp[t[2]])
Adm2(sp) == {t \in Pairs(Len(sp)) : AboveThr(Sin2N(sp, t), Sin2D(sp, t))}
\* area^2 = |a x b|^2 ;  A < 1.25 Amin  <=>  16 A^2 < 25 Amin^2
SmallArea(sp, S) == {t \in S : \A u \in S : TolDen * TolDen * Sin2N(sp, t) < TolNum * TolNum * Sin2N(sp, u) \/ Sin2N(sp, t) = Sin2N(sp, u)}
MostPerp(sp, S) == {t \in S : \A u \in S : Sin2N(sp, t) * Sin2D(sp, u) >= Sin2N(sp, u) * Sin2D(sp, t)}
Best2(sp, me) == MostPerp(sp, SmallArea(sp, MaxMetric(me, Adm2(sp))))
Best1(sp) == {<<k>> : k \in {k \in 1..Len(sp) : \A m \in 1..Len(sp) : N2(sp[k]) <= N2(sp[m])}}

Best(sp, me) ==
    IF Len(sp) = 1 THEN {<<1>>}
    ELSE IF Len(sp) >= 3 /\ Adm3(sp) # {} THEN Best3(sp, me)
    ELSE IF Adm2(sp) # {} THEN Best2(sp, me)
    ELSE Best1(sp)
Dim(sp) == IF Len(sp) = 1 THEN 1 ELSE IF Len(sp) >= 3 /\ Adm3(sp) # {} THEN 3 ELSE IF Adm2(sp) # {} THEN 2 ELSE 1

\* ---- ambiguity (float comparison could go either way)
Ambiguous(sp, me) ==
    \/ Len(sp) >= 3 /\ \E t \in Triples(Len(sp)) : Near3(sp, t)
    \/ Len(sp) >= 2 /\ \E t \in Pairs(Len(sp)) : NearThr(Sin2N(sp, t), Sin2D(sp, t))
    \/ LET S == MaxMetric(me, Adm3(sp)) IN Len(sp) >= 3 /\ \E t, u \in S : TolDen * TolDen * Vol2(sp, t) = TolNum * TolNum * Vol2(sp, u)
    \/ LET S == MaxMetric(me, Adm2(sp)) IN \E t, u \in S : TolDen * TolDen * Sin2N(sp, t) = TolNum * TolNum * Sin2N(sp, u)

\* ================= design model =================
CONSTANTS NMax, Met, EqualMetrics
GCubic == <<<<1, 0, 0>>, <<0, 1, 0>>, <<0, 0, 1>>>>
GHex == <<<<2, -1, 0>>, <<-1, 2, 0>>, <<0, 0, 5>>>>      \* hexagonal frame, (c/a)^2 = 5/2
USmall == {v \in (-1..1) \X (-1..1) \X (0..1) : v # <<0, 0, 0>>}
\* universe: one vector per direction class of small integer vectors (sign-reduced), plus multiples
U == IF G = GCubic THEN USmall \cup {<<2, 0, 0>>, <<0, 2, 0>>, <<1, 1, 2>>, <<2, 1, 0>>} ELSE USmall
VARIABLES sp, me, done
vars == <<sp, me, done>>
Distinct(s) == \A p, q \in 1..Len(s) : p # q => s[p] # s[q]
SeqsUpTo(S, n) == UNION {[1..m -> S] : m \in 1..n}
\* the inputs of the design model; BestBasisEmit.tla writes exactly this set out for replay into the real function
SpanLists == {s \in SeqsUpTo(U, NMax) : Distinct(s)}
Metrics(s) == IF EqualMetrics THEN {[k \in 1..Len(s) |-> 1]} ELSE [1..Len(s) -> Met]
Init == /\ sp \in SpanLists
        /\ me \in Metrics(sp)
        /\ done = FALSE
Next == ~done /\ done' = TRUE /\ UNCHANGED <<sp, me>>
Spec == Init /\ [][Next]_vars

Total == Best(sp, me) # {}
Independent == \A r \in Best(sp, me) :
    /\ Len(r) = Dim(sp)
    /\ Len(r) = 3 => Det2(sp[r[1]], sp[r[2]], sp[r[3]]) # 0
    /\ Len(r) = 2 => N2Cross(sp[r[1]], sp[r[2]]) # 0
\* when the candidates contain an admissible basis of the integer lattice itself, the choice is such a basis
PrimitiveWhenAvailable ==
    (Len(sp) >= 3 /\ \E t \in Adm3(sp) : Vol2(sp, t) = DetG) => \A r \in Best(sp, me) : Vol2(sp, r) = DetG
\* the rule does not depend on the order in which the spans are listed (reversal and rotation generate enough)
Vecs(s, r) == {s[r[k]] : k \in 1..Len(r)}
Rev(s) == [k \in 1..Len(s) |-> s[Len(s) + 1 - k]]
Rot(s) == [k \in 1..Len(s) |-> s[(k % Len(s)) + 1]]
OrderIndependent ==
    LET B == {Vecs(sp, r) : r \in Best(sp, me)} IN
    /\ B = {Vecs(Rev(sp), r) : r \in Best(Rev(sp), Rev(me))}
    /\ B = {Vecs(Rot(sp), r) : r \in Best(Rot(sp), Rot(me))}
=============================================================================
