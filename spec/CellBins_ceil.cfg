SPECIFICATION Spec
CONSTANTS RMax = 24
 Variant = "ceil_no_clamp"
INVARIANT BinsSuffice
INVARIANT BinInRange
CHECK_DEADLOCK FALSE
