--------------------------- MODULE TraceBestBasis ---------------------------
(* Binding of BestBasis.tla to PeriodicFinder._find_best_basis: one record per real call
     spans   integer span vectors in the lattice frame with Gram matrix `gram` (the harness hands the function
             scale * R * A * span, A a realisation of the frame, R a rotation)
     metrics the span metrics
     res     what the code returned (1-based indices into spans)
   Verdict: the answer is one the rule of BestBasis.tla allows.  Ambiguous inputs (a float comparison within 1 %
   of a threshold, or exactly on the size boundary) only have to return the right number of independent spans. *)
EXTENDS Integers, Sequences, FiniteSets, TLC, Json, IOUtils

NMax == 0
Met == {}
EqualMetrics == TRUE
VARIABLES sp, me, done
Tr == ndJsonDeserialize(IOEnv.TRACE_FILE)
\* all records of one batch share the lattice frame (the harness writes one batch per Gram matrix)
G == Tr[1].gram
B == INSTANCE BestBasis
RightShape(e) == /\ Len(e.res) = B!Dim(e.spans)
                 /\ \A k \in 1..Len(e.res) : e.res[k] \in 1..Len(e.spans)
Independent(e) == LET r == e.res s == e.spans IN
                  /\ Len(r) = 3 => B!Det2(s[r[1]], s[r[2]], s[r[3]]) # 0
                  /\ Len(r) = 2 => B!N2Cross(s[r[1]], s[r[2]]) # 0
Verdict(e) == IF e.gram # G THEN "BatchSharesFrame"
              ELSE IF e.error # "" THEN "ReturnsNormally"
              ELSE IF B!Ambiguous(e.spans, e.metrics)
                   THEN (IF Len(e.res) = 0 THEN "NonEmpty" ELSE "ambiguous")
              ELSE IF ~RightShape(e) THEN "DimensionOfChoice"
              ELSE IF ~Independent(e) THEN "IndependentSpans"
              ELSE IF e.res \notin B!Best(e.spans, e.metrics) THEN "ChoiceAllowedByRule"
              ELSE "ok"
VARIABLES i
vars == <<i, sp, me, done>>
Init == i \in 1..Len(Tr) /\ done = FALSE /\ sp = <<>> /\ me = <<>>
Next == /\ ~done
        /\ LET v == Verdict(Tr[i]) IN
           IF v = "ok" THEN TRUE ELSE IF v = "ambiguous" THEN PrintT(<<"AMBIG", Tr[i].tid>>) ELSE PrintT(<<"FAIL", Tr[i].tid, v>>)
        /\ done' = TRUE /\ UNCHANGED <<i, sp, me>>
Spec == Init /\ [][Next]_vars
=============================================================================
