------------------------------ MODULE DimModel ------------------------------
(* Design-level check for C09 (exhaustive over a small Z-world): for every configuration the documented
   2x-supercell algorithm computes the GF(2) rank of the cycle lattice (AlgoEqualsGF2), and in the explored
   family the GF(2) rank equals the integer rank the definition asks for (GF2EqualsZ).  Also theorems of
   the definition itself: invariance under lattice shifts of single atoms and under atom reordering. *)
EXTENDS Dimensionality, SequencesExt

Cells == << << <<2,0,0>>, <<0,2,0>>, <<0,0,2>> >>,
            << <<2,0,0>>, <<1,2,0>>, <<0,0,3>> >>,
            << <<3,0,0>>, <<0,1,0>>, <<0,0,2>> >>,
            << <<2,0,0>>, <<1,2,0>>, <<1,1,2>> >> >>
CONSTANTS CellIdx, MaxAtoms      \* which catalogue cells / how many atoms the configuration space contains
B == {TRUE, FALSE}
Inside(c, p) == LET d == Det3(c)  s == IF d > 0 THEN 1 ELSE -1
                    f1 == s*Dot(p, Cross(c[2], c[3]))  f2 == s*Dot(p, Cross(c[3], c[1]))  f3 == s*Dot(p, Cross(c[1], c[2]))
                IN 0 <= f1 /\ f1 < s*d /\ 0 <= f2 /\ f2 < s*d /\ 0 <= f3 /\ f3 < s*d
Pts(c) == {p \in (0..3) \X (0..3) \X (0..3) : Inside(c, <<p[1], p[2], p[3]>>)}
KB == 3        \* thresholds below are < the shortest height * KB for every catalogue cell

VARIABLES ci, pbc, atoms, thr, res
vars == <<ci, pbc, atoms, thr, res>>
Init == /\ ci \in CellIdx /\ pbc \in B \X B \X B
        /\ atoms \in UNION {kSubset(k, Pts(Cells[ci])) : k \in 1..MaxAtoms}
        /\ thr \in {1, 3, 5, 9}                \* 2*threshold^2
        /\ res = <<>>
Pos == LET s == SetToSeq(atoms) IN [k \in 1..Len(s) |-> <<s[k][1], s[k][2], s[k][3]>>]
P3 == <<pbc[1], pbc[2], pbc[3]>>
A == 1..Cardinality(atoms)
\* shifting atom 1 by a lattice vector of periodic direction k relabels the edges
Shifted(E, k) == LET uu == <<IF k = 1 THEN 1 ELSE 0, IF k = 2 THEN 1 ELSE 0, IF k = 3 THEN 1 ELSE 0>> IN
  {<<e[1], e[2], VAdd(VAdd(e[3], IF e[2] = 1 THEN Neg(uu) ELSE Zero3), IF e[1] = 1 THEN uu ELSE Zero3)>> : e \in E}
\* the (expensive) evaluation is one action so that TLC's workers share it
Evaluate == /\ res = <<>>
            /\ \E E \in {EdgesOf(Cells[ci], P3, Pos, thr, KB)} :      \* bound once (TLC re-evaluates LET definitions lazily)
               res' = [algo |-> AlgoDim(E, A, P3), gf2 |-> DimGF2(E, A), z |-> DefDim(E, A),
                       shifted |-> {DefDim(Shifted(E, k), A) : k \in {x \in 1..3 : pbc[x]}}, nedges |-> Cardinality(E)]
            /\ UNCHANGED <<ci, pbc, atoms, thr>>
Next == Evaluate
Spec == Init /\ [][Next]_vars

Done == res # <<>>
AlgoEqualsGF2 == Done => res.algo = res.gf2
GF2EqualsZ == Done => res.gf2 = res.z
ShiftInvariant == Done => res.shifted \subseteq {res.z}
DimInRange == Done => (res.z \in {None, 0, 1, 2, 3} /\ (res.z # None => res.z <= NPbc(P3)))
=============================================================================
