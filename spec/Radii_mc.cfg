SPECIFICATION Spec
INVARIANT FallbackFinitePositive
INVARIANT PrefersVdw
INVARIANT CovalentTotal
CHECK_DEADLOCK FALSE
