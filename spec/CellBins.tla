------------------------------ MODULE CellBins ------------------------------
(* Design model of the binning of matid/ext/celllist.cpp (CellList::init and the 27-bin scan), one cartesian
   axis at a time (the three axes are binned independently), in exact arithmetic:
     range  R  = xmax - xmin                       (a positive integer; the 1e-4 padding only widens it)
     cutoff c  with c^2 = C2x2 / 2                 (C2x2 odd: irrational cutoff, no ties)
     n     = max(1, floor(R / c))                  number of bins
     width = max(c, R / n)                         bin width
     bin(x) = floor((x - xmin) / width)
   A query at q scans the bins bin(q)-1 .. bin(q)+1.  BinsSuffice: every point within the cutoff of the
   query lies in a scanned bin.  The variants reproduce two seeded changes (rounding the bin count to nearest /
   up and dropping the max with the cutoff); TLC shows that they violate BinsSuffice. *)
EXTENDS Integers, TLC

CONSTANTS RMax,          \* ranges 1..RMax
          Variant        \* "code" | "round_nearest_no_clamp" | "ceil_no_clamp"
C2s == {1, 3, 5, 9, 13, 19, 25, 33, 51}
\* floor(R / c) for c = sqrt(C2x2 / 2):  the largest k with k^2 * C2x2 <= 2 * R^2
FloorDiv(R, c2x2) == CHOOSE k \in 0..(2 * R + 1) : k * k * c2x2 <= 2 * R * R /\ (k + 1) * (k + 1) * c2x2 > 2 * R * R
\* round(R / c): floor(R / c + 1/2) = largest k with (2k - 1)^2 c2x2 <= 8 R^2   (k >= 1), else 0
RoundDiv(R, c2x2) == CHOOSE k \in 0..(2 * R + 2) : (k = 0 \/ (2 * k - 1) * (2 * k - 1) * c2x2 <= 8 * R * R)
                                                  /\ (2 * k + 1) * (2 * k + 1) * c2x2 > 8 * R * R
CeilDiv(R, c2x2) == FloorDiv(R, c2x2) + 1          \* R / c is irrational
NBins(R, c2x2) == LET k == CASE Variant = "code" -> FloorDiv(R, c2x2)
                             [] Variant = "round_nearest_no_clamp" -> RoundDiv(R, c2x2)
                             [] Variant = "ceil_no_clamp" -> CeilDiv(R, c2x2)
                  IN IF k < 1 THEN 1 ELSE k
\* is the width the cutoff (TRUE) or R / n (FALSE)?   c >= R / n  <=>  n^2 c2x2 >= 2 R^2
WidthIsCutoff(R, c2x2) == Variant = "code" /\ NBins(R, c2x2) * NBins(R, c2x2) * c2x2 >= 2 * R * R
\* bin index of offset d = x - xmin (0 <= d <= R)
Bin(d, R, c2x2) == IF WidthIsCutoff(R, c2x2) THEN FloorDiv(d, c2x2) ELSE (d * NBins(R, c2x2)) \div R

VARIABLES R, c2x2, x, q
vars == <<R, c2x2, x, q>>
Init == R \in 1..RMax /\ c2x2 \in C2s /\ x \in 0..R /\ q \in 0..R
Next == UNCHANGED vars
Spec == Init /\ [][Next]_vars

Within == 2 * (x - q) * (x - q) <= c2x2
Abs(a) == IF a < 0 THEN -a ELSE a
BinsSuffice == Within => Abs(Bin(x, R, c2x2) - Bin(q, R, c2x2)) <= 1
\* the code indexes bins 0..n-1: the largest offset must not fall outside (the padding guarantees d < range in the code;
\* here d = R is the closed end, which the code avoids by padding - named deviation)
BinInRange == x < R => Bin(x, R, c2x2) < NBins(R, c2x2) \/ WidthIsCutoff(R, c2x2)
=============================================================================
