SPECIFICATION Spec
CONSTANT DMax = 3
INVARIANT MicSymmetric
INVARIANT SafeKSuffices
INVARIANT BasisIndependent
INVARIANT MicBelowDirect
INVARIANT ShiftInvariant
CHECK_DEADLOCK FALSE
