SPECIFICATION Spec
INVARIANT NoStaleCache
CHECK_DEADLOCK FALSE
