-------------------------- MODULE TraceClassifier ---------------------------
(* Recorded runs of Classifier.classify judged against Classifier.tla's predicates (C17) and against the
   outcome known from construction (C18). *)
EXTENDS ClassifierDefs

Tr == ndJsonDeserialize(IOEnv.TRACE_FILE)
Mode == IOEnv.MODE
ToSet(s) == {s[k] : k \in 1..Len(s)}

\* ---- C17
ReturnsNormally(e) == e.error = ""
InputUntouched(e) == e.untouched
T_ClassMatchesDim(e) == ClassMatchesDim(e.cls, e.dim_wrapped, e.n)
T_RefinementImplies(e) == e.cls \in {"Surface", "Material2D"} =>
   /\ e.has_cell
   /\ ToSet(e.basis) \cup ToSet(e.outliers) = 1..e.n
   /\ ToSet(e.basis) \cap ToSet(e.outliers) = {}
   /\ Cardinality(ToSet(e.basis)) = Len(e.basis) /\ Cardinality(ToSet(e.outliers)) = Len(e.outliers)
   /\ Covered(Len(e.basis), e.n, e.cov_num, e.cov_den)
T_Idempotent(e) == e.cls_again = e.cls /\ e.cls_same_object = e.cls /\ e.params_untouched
\* a classifier object with a history (the same geometry under another pbc pattern just before) gives the same class
T_HistoryIndependent(e) == e.cls_hist = e.cls
\* the recorded run is an instance of the model's dispatch (binding of the design model; mismatch = drift)
ConformsToDispatch(e) == e.cls = Dispatch(e.dim_wrapped, e.n, e.region.has, e.region.nbasis, e.region.is2d, e.region.nconn, e.cov_num, e.cov_den)
V17(e) == IF ~ReturnsNormally(e) THEN "ReturnsNormally" ELSE IF ~InputUntouched(e) THEN "InputUntouched"
          ELSE IF ~T_ClassMatchesDim(e) THEN "ClassMatchesDim" ELSE IF ~T_RefinementImplies(e) THEN "RefinementImplies"
          ELSE IF ~T_Idempotent(e) THEN "Idempotent" ELSE IF ~T_HistoryIndependent(e) THEN "HistoryIndependent"
          ELSE IF e.region_known /\ ~ConformsToDispatch(e) THEN "DRIFT-ConformsToDispatch" ELSE "ok"

\* ---- C18: expected class and outliers known from construction
V18(e) == IF ~ReturnsNormally(e) THEN "ReturnsNormally" ELSE IF e.cls # e.expected_cls THEN "ExpectedClass"
          ELSE IF ToSet(e.outliers) # ToSet(e.expected_outliers) THEN "OutliersAreTheAdsorbates"
          \* the structure shifted through the periodic boundary, wrapped, rotated and renumbered (outliers in the original numbering)
          ELSE IF \E k \in 1..Len(e.variants) : e.variants[k].error # "" THEN "TranslatedReturnsNormally"
          ELSE IF \E k \in 1..Len(e.variants) : e.variants[k].cls # e.expected_cls THEN "TranslationInvariantClass"
          ELSE IF \E k \in 1..Len(e.variants) : ToSet(e.variants[k].outliers) # ToSet(e.expected_outliers_orig) THEN "TranslationInvariantOutliers"
          ELSE "ok"

Verdict(e) == CASE Mode = "C17" -> V17(e) [] Mode = "C18" -> V18(e)
VARIABLES i, done
tvars == <<i, done>>
TInit == i \in 1..Len(Tr) /\ done = FALSE
TNext == /\ ~done
         /\ LET v == Verdict(Tr[i]) IN IF v = "ok" THEN TRUE ELSE PrintT(<<"FAIL", Tr[i].tid, v>>)
         /\ done' = TRUE /\ i' = i
TSpec == TInit /\ [][TNext]_tvars
=============================================================================
