SPECIFICATION Spec
CONSTANTS Sizes <- SizeCatalogue
 Dim3 = TRUE
INVARIANT NoOverride
INVARIANT Complete
INVARIANT EachAtomOnce
INVARIANT OldHeuristicExact
INVARIANT Bounded
CHECK_DEADLOCK FALSE
