\* The connected-directions criterion as found (before fix 4514eff).  Expected result: OldHeuristicSound is VIOLATED
\* (e.g. 3x3x1 cells, periodic in x and z only, two vacant sites: direction y is named).  Kept as a refuted variant.
SPECIFICATION Spec
CONSTANTS Sizes <- SmallCatalogue
 MaxVac = 2
 Dim3 = TRUE
INVARIANT OldHeuristicSound
CHECK_DEADLOCK FALSE
