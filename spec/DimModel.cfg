SPECIFICATION Spec
CONSTANTS CellIdx = {1, 4}
 MaxAtoms = 2
INVARIANT AlgoEqualsGF2
INVARIANT GF2EqualsZ
INVARIANT ShiftInvariant
INVARIANT DimInRange
CHECK_DEADLOCK FALSE
