----------------------------- MODULE TraceProto -----------------------------
(* C04: the prototype cell of a cluster identifies the material it was cut from.  Each record holds what the
   documented workflow (SymmetryAnalyzer on cluster.get_cell()) reports and what the same analysis of the
   source crystal's own unit cell reports at the same tolerance. *)
EXTENDS Integers, Sequences, FiniteSets, TLC, Json, IOUtils

Tr == ndJsonDeserialize(IOEnv.TRACE_FILE)
Occ(o) == {<<o[k][1], o[k][2], o[k][3], o[k][4]>> : k \in 1..Len(o)}      \* <<letter, Z, multiplicity, how many such sets>>
OneCluster(e) == e.n_clusters = 1
HasCell(e) == e.has_cell
SameId(e) == e.proto.id = e.source.id
SameGroup(e) == e.proto.number = e.source.number
SameOccupation(e) == Occ(e.proto.occ) = Occ(e.source.occ)
PeriodicDirections(e) == e.cell_npbc = e.expected_npbc
WholeFormulaUnits(e) == e.cell_natoms % e.formula_size = 0 /\ e.cell_natoms > 0
                        /\ \A k \in 1..Len(e.formula) : e.cell_counts[k] * e.formula_size = e.formula[k] * e.cell_natoms
Verdict(e) == IF e.error # "" THEN "WorkflowReturnsNormally" ELSE IF ~OneCluster(e) THEN "OneCluster" ELSE IF ~HasCell(e) THEN "HasCell"
              ELSE IF ~PeriodicDirections(e) THEN "PeriodicDirections" ELSE IF ~WholeFormulaUnits(e) THEN "WholeFormulaUnits"
              ELSE IF ~SameGroup(e) THEN "SameSpaceGroup" ELSE IF ~SameOccupation(e) THEN "SameWyckoffOccupation"
              ELSE IF ~SameId(e) THEN "SameMaterialId" ELSE "ok"
VARIABLES i, done
vars == <<i, done>>
Init == i \in 1..Len(Tr) /\ done = FALSE
Next == /\ ~done
        /\ LET v == Verdict(Tr[i]) IN IF v = "ok" THEN TRUE ELSE PrintT(<<"FAIL", Tr[i].tid, v>>)
        /\ done' = TRUE /\ i' = i
Spec == Init /\ [][Next]_vars
=============================================================================
