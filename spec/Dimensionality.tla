--------------------------- MODULE Dimensionality ---------------------------
(* C09: dimensionality = rank of the periodic bonding network.

   A bonding network is a finite set E of labelled edges <<i, j, n>>: atom i is bonded to the periodic
   image of atom j displaced by the integer combination n of the cell vectors (n = 0 along non-periodic
   axes).  E is kept symmetric (<<j, i, -n>> is present as well).

   DefDim  - the definition the property states: none (-1) if the quotient graph has several components,
             otherwise the rank over Z of the cycle lattice {phi[i] + n - phi[j]} for BFS potentials phi.
   AlgoDim - what the documented algorithm (topology scaling on a 2x supercell) computes:
             n_pbc - log2(number of components of the quotient graph modulo the doubled lattice),
             i.e. the rank of the cycle lattice over GF(2). *)
EXTENDS Lattice

Neg(n) == << -n[1], -n[2], -n[3] >>
Sym(E) == E \cup {<<e[2], e[1], Neg(e[3])>> : e \in E}

\* BFS potentials from a root: function from the reached atoms to Z^3
RECURSIVE Potential(_, _, _)
Potential(E, phi, frontier) ==
  IF frontier = {} THEN phi
  ELSE LET cand == {<<e[2], VAdd(phi[e[1]], e[3])>> : e \in {x \in E : x[1] \in frontier /\ x[2] \notin DOMAIN phi}}
           newatoms == {p[1] : p \in cand}
           phi2 == [a \in (DOMAIN phi) \cup newatoms |->
                      IF a \in DOMAIN phi THEN phi[a] ELSE (CHOOSE p \in cand : p[1] = a)[2]]
       IN Potential(E, phi2, newatoms)
Phi(E, root) == Potential(E, [a \in {root} |-> Zero3], {root})
ComponentOf(E, a) == DOMAIN Phi(E, a)
Components(E, atoms) == {ComponentOf(E, a) : a \in atoms}

CycleVecs(E, phi) == {VSub(VAdd(phi[e[1]], e[3]), phi[e[2]]) : e \in E} \ {Zero3}
\* rank over Z of a finite set of integer vectors, linear in |S|: any non-zero a, any b not parallel to it,
\* any c outside their plane.  (The cubic form "exists a, b, c with non-zero determinant" took 20 minutes on
\* networks with ~1000 cycle vectors.)  Operator arguments and LET definitions are evaluated lazily by TLC and
\* may be re-evaluated at every use; binding them as elements of singleton sets forces one evaluation.
Only(S) == CHOOSE x \in S : TRUE
RankV(S) == IF S = {} THEN 0
            ELSE Only({ IF \A b \in S : Cross(a, b) = Zero3 THEN 1
                        ELSE Only({ IF \A c \in S : Dot(nrm, c) = 0 THEN 2 ELSE 3
                                    : nrm \in {Cross(a, CHOOSE x \in S : Cross(a, x) # Zero3)} })
                        : a \in {CHOOSE x \in S : TRUE} })
RankZ(S0) == Only({RankV(S) : S \in {S0}})
Mod2(v) == << v[1] % 2, v[2] % 2, v[3] % 2 >>
Xor(a, b) == << (a[1] + b[1]) % 2, (a[2] + b[2]) % 2, (a[3] + b[3]) % 2 >>
RECURSIVE Span2(_)
Span2(S) == LET T == S \cup {Xor(a, b) : a \in S, b \in S} IN IF T = S THEN S ELSE Span2(T)
Log2(k) == CASE k = 1 -> 0 [] k = 2 -> 1 [] k = 4 -> 2 [] k = 8 -> 3
RankGF2(S) == Log2(Cardinality(Span2({Mod2(v) : v \in S} \cup {Zero3})))

None == -1
\* E symmetric, atoms = 1..n
DefDimV(E, atoms) == IF Cardinality(Components(E, atoms)) > 1 THEN None
                     ELSE LET r == CHOOSE a \in atoms : TRUE IN RankZ(CycleVecs(E, Phi(E, r)))
DefDim(E0, atoms) == Only({DefDimV(E, atoms) : E \in {E0}})
DimGF2(E, atoms) == IF Cardinality(Components(E, atoms)) > 1 THEN None
                    ELSE LET r == CHOOSE a \in atoms : TRUE IN RankGF2(CycleVecs(E, Phi(E, r)))

\* the 2x supercell of the algorithm: nodes <<atom, parity>>, parity in {0,1} along periodic axes
Par(pbc) == (IF pbc[1] THEN {0, 1} ELSE {0}) \X (IF pbc[2] THEN {0, 1} ELSE {0}) \X (IF pbc[3] THEN {0, 1} ELSE {0})
RECURSIVE Reach2(_, _, _)
Reach2(E, visited, frontier) ==
  IF frontier = {} THEN visited
  ELSE LET nb2 == UNION {{<<e[2], Xor(Mod2(e[3]), v[2])>> : e \in {x \in E : x[1] = v[1]}} : v \in frontier}
           new == nb2 \ visited
       IN Reach2(E, visited \cup new, new)
Comps2x(E, atoms, pbc) == {Reach2(E, {<<a, p>>}, {<<a, p>>}) : a \in atoms, p \in Par(pbc)}
NPbc(pbc) == Cardinality({k \in 1..3 : pbc[k]})
AlgoDim(E, atoms, pbc) == IF Cardinality(Components(E, atoms)) > 1 THEN None
                          ELSE NPbc(pbc) - Log2(Cardinality(Comps2x(E, atoms, pbc)))

\* ---- bonding network of a Z-world configuration: all images within the threshold, self images included
\* thr2x2 = 2*threshold^2 (odd).  K must make the box large enough for the threshold (checked by BoxCovers).
EdgesOf(cell, pbc, pos, thr2x2, Kb) ==
  LET per == Periodic(cell, pbc)
      n == Len(pos)
  IN {<<i, j, m>> \in (1..n) \X (1..n) \X Box(Kb, per) :
        /\ ~(i = j /\ m = Zero3)
        /\ 2 * Norm2(VSub(VSub(pos[i], pos[j]), Comb(m, per))) <= thr2x2}
=============================================================================
