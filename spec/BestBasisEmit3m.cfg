SPECIFICATION Spec
CONSTANT G <- GCubic
CONSTANTS NMax = 3
 Met = {1, 2}
 EqualMetrics = FALSE
CHECK_DEADLOCK FALSE
