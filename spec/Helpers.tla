------------------------------ MODULE Helpers -------------------------------
(* C20: cell and frame helpers of matid.geometry, judged on recorded calls.
   Exact clauses use the Z-world (integer cells / positions; fractional coordinates as integers over the
   determinant).  Clauses about real quantities (lengths, centres) use scaled scalars: integers in units
   of 1e-6 (lengths 1e-4) compared with an explicit +-Delta that is part of this text. *)
EXTENDS Lattice, Json, IOUtils

Tr == ndJsonDeserialize(IOEnv.TRACE_FILE)
Abs(x) == IF x < 0 THEN -x ELSE x
Close(a, b, dlt) == Abs(a - b) <= dlt
VClose(a, b, dlt) == \A k \in 1..3 : Close(a[k], b[k], dlt)

\* ---- ev = "scaled": to_scaled / to_cartesian on integer cell and integer positions
\* fdet[i] = round(det * to_scaled(cell, pos[i]));  back[i] = round(to_cartesian(cell, to_scaled(...)))
\* wrapped: the same with wrap=True, pbc
ScaledIsInverse(e) == \A i \in 1..Len(e.pos) : Comb(e.fdet[i], e.cell) = Scale(e.det, e.pos[i])
RoundTrip(e) == \A i \in 1..Len(e.pos) : e.back[i] = e.pos[i]
WrapOnly(e, wd) == \A i \in 1..Len(e.pos) : \A k \in 1..3 :
   LET diff == e.fdet[i][k] - wd[i][k] IN
   IF e.pbc[k] THEN /\ diff % Abs(e.det) = 0
                    \* inside the cell; the upper end is allowed because a coordinate that is mathematically an integer may be
                    \* represented just below it and then wraps to 1 - 1e-16 (the statement only asks for integer changes)
                    /\ (IF e.det > 0 THEN 0 <= wd[i][k] /\ wd[i][k] <= e.det ELSE e.det <= wd[i][k] /\ wd[i][k] <= 0)
   ELSE diff = 0
WrapOnlyPeriodicByIntegers(e) == WrapOnly(e, e.wdet)
\* to_cartesian(wrap=True, pbc): the cartesian image of the wrapped coordinates (observed through to_scaled)
CartesianWrapOnlyPeriodicByIntegers(e) == WrapOnly(e, e.wcdet)
\* history: the cell object was changed in place (swap_basis) after an earlier to_scaled call on it
ScaledAfterCellChange(e) == /\ e.det_after = Det3(e.cell_after) /\ e.hist_exact
                            /\ \A i \in 1..Len(e.pos) : Comb(e.fdet_after[i], e.cell_after) = Scale(e.det_after, e.pos[i])
VScaled(e) == IF e.det # Det3(e.cell) THEN "HARNESS-det" ELSE IF ~e.exact THEN "ExactInRationalWorld"
              ELSE IF ~ScaledAfterCellChange(e) THEN "ToScaledAfterCellChangedInPlace"
              ELSE IF ~ScaledIsInverse(e) THEN "ToScaledInvertsToCartesian" ELSE IF ~RoundTrip(e) THEN "ToCartesianInvertsToScaled"
              ELSE IF ~WrapOnlyPeriodicByIntegers(e) THEN "WrapOnlyPeriodicByIntegers"
              ELSE IF ~CartesianWrapOnlyPeriodicByIntegers(e) THEN "ToCartesianWrapOnlyPeriodicByIntegers" ELSE "ok"

\* ---- ev = "minimize": get_minimized_cell(system, axis, min_size); lengths in 1e-4 A, fractions in 1e-6
D4 == 20          \* 2e-3 A
D6 == 200         \* 2e-4 (fractional)
SameDisplacements(e) == \A i, j \in 1..Len(e.pos_old) : VClose(VSub(e.pos_new[i], e.pos_new[j]), VSub(e.pos_old[i], e.pos_old[j]), D4)
CellDiffersOnlyAlongAxis(e) == \A k \in 1..3 : k # e.axis => e.cell_new[k] = e.cell_old[k]
AxisLength(e) == Close(e.len_new, IF e.extent > e.min_size THEN e.extent ELSE e.min_size, D4)
AllInside(e) == \A i \in 1..Len(e.frac_new) : -D6 <= e.frac_new[i][e.axis] /\ e.frac_new[i][e.axis] <= 1000000 + D6
CentredWhenPadded(e) == e.extent < e.min_size - D4 =>
     Close(e.fmin_new + e.fmax_new, 1000000, 2 * D6)
SameSpecies(e) == e.z_new = e.z_old /\ e.pbc_new = e.pbc_old
VMinimize(e) == IF ~SameSpecies(e) THEN "SameAtoms" ELSE IF ~SameDisplacements(e) THEN "SameDisplacements"
                ELSE IF ~CellDiffersOnlyAlongAxis(e) THEN "CellDiffersOnlyAlongAxis"
                ELSE IF ~AxisLength(e) THEN "AxisLengthIsMaxOfExtentAndMinSize"
                ELSE IF ~AllInside(e) THEN "AllAtomsInside" ELSE IF ~CentredWhenPadded(e) THEN "CentredWhenPadded" ELSE "ok"

\* ---- ev = "swap": swap_basis(atoms, a, b)
VSwap(e) == IF e.pos_new # e.pos_old THEN "SwapDoesNotMoveAtoms"
            ELSE IF ~(\A k \in 1..3 : e.cell_new[k] = e.cell_old[IF k = e.a THEN e.b ELSE IF k = e.b THEN e.a ELSE k]) THEN "SwapExchangesCellVectors"
            ELSE IF ~(\A k \in 1..3 : e.pbc_new[k] = e.pbc_old[IF k = e.a THEN e.b ELSE IF k = e.b THEN e.a ELSE k]) THEN "SwapExchangesPbc"
            ELSE "ok"

\* ---- ev = "complete": complete_cell(a, b, length) on integer vectors; c in 1e-4
VComplete(e) == IF Abs(Dot(e.c, e.a)) > 3 * 20 * D4 \/ Abs(Dot(e.c, e.b)) > 3 * 20 * D4 THEN "CompleteCellOrthogonal"
                ELSE IF ~Close(e.len_c, e.length, D4) THEN "CompleteCellLength" ELSE "ok"

\* ---- ev = "com": periodic centre of mass; fractional coordinates in 1e-6
Frac1(x) == ((x % 1000000) + 1000000) % 1000000
CircClose(a, b) == LET d == Frac1(a - b) IN d <= D6 \/ d >= 1000000 - D6
ComMovesWithTranslation(e) == \A k \in 1..3 :
   IF e.pbc[k] THEN CircClose(e.com_t[k], e.com[k] + e.t[k]) ELSE Close(e.com_t[k], e.com[k] + e.t[k], D6)
ComIgnoresLatticeShifts(e) == \A k \in 1..3 :
   IF e.pbc[k] THEN CircClose(e.com_s[k], e.com[k]) ELSE Close(e.com_s[k], e.com[k], D6)
VCom(e) == IF ~ComMovesWithTranslation(e) THEN "ComMovesWithTranslation" ELSE IF ~ComIgnoresLatticeShifts(e) THEN "ComIgnoresLatticeShifts" ELSE "ok"

\* ---- ev = "inertia": get_moments_of_inertia(system, weight); tiny integer configurations, integer masses.
\* trI = sum_k w_k * 2 |p_k - c|^2 computed by the harness is NOT trusted: tr is recomputed here from
\* M*p - sum(m p) (finite system: centre = mass-weighted mean), everything scaled by M^2.
Wt(e, k) == IF e.weight THEN e.m[k] ELSE 1
Mtot(e) == LET S[k \in 0..Len(e.m)] == IF k = 0 THEN 0 ELSE S[k-1] + e.m[k] IN S[Len(e.m)]
MP(e) == LET S[k \in 0..Len(e.m)] == IF k = 0 THEN Zero3 ELSE VAdd(S[k-1], Scale(e.m[k], e.pos[k])) IN S[Len(e.m)]
TraceM2(e) == LET M == Mtot(e)  mp == MP(e)
                  S[k \in 0..Len(e.m)] == IF k = 0 THEN 0 ELSE S[k-1] + Wt(e, k) * 2 * Norm2(VSub(Scale(M, e.pos[k]), mp))
              IN S[Len(e.m)]
\* evals in 1e-3 * (frame scale)^2 already divided out by the harness: evals3[k] = round(1000 * lambda_k)
TraceIdentity(e) == LET M == Mtot(e) IN Abs((e.evals3[1] + e.evals3[2] + e.evals3[3]) * M * M - 1000 * TraceM2(e)) <= 30 * M * M
Orthonormal(e) == \A a, b \in 1..3 : Close(Dot(e.evecs3[a], e.evecs3[b]), IF a = b THEN 1000000 ELSE 0, 5000)
Ascending(e) == e.evals3[1] <= e.evals3[2] + 2 /\ e.evals3[2] <= e.evals3[3] + 2 /\ e.evals3[1] >= -2
VInertia(e) == IF e.error # "" THEN "InertiaReturnsNormally" ELSE IF ~TraceIdentity(e) THEN "InertiaTraceIdentity"
               ELSE IF ~Orthonormal(e) THEN "InertiaVectorsOrthonormal" ELSE IF ~Ascending(e) THEN "InertiaEigenvaluesOrdered" ELSE "ok"

Verdict(e) == CASE e.ev = "scaled" -> VScaled(e) [] e.ev = "minimize" -> VMinimize(e) [] e.ev = "swap" -> VSwap(e)
                [] e.ev = "complete" -> VComplete(e) [] e.ev = "com" -> VCom(e) [] e.ev = "inertia" -> VInertia(e)
                [] OTHER -> "HARNESS-unknown-event"
VARIABLES i, done
vars == <<i, done>>
Init == i \in 1..Len(Tr) /\ done = FALSE
Next == /\ ~done
        /\ LET v == Verdict(Tr[i]) IN IF v = "ok" THEN TRUE ELSE PrintT(<<"FAIL", Tr[i].tid, v>>)
        /\ done' = TRUE /\ i' = i
Spec == Init /\ [][Next]_vars
=============================================================================
