SPECIFICATION FairSpec
CONSTANTS NAtoms = 3
 MergeNum = 1
 MergeDen = 2
 CleanResetsCache = TRUE
PROPERTY Terminates
CHECK_DEADLOCK FALSE
