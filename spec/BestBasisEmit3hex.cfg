SPECIFICATION Spec
CONSTANT G <- GHex
CONSTANTS NMax = 3
 Met = {1, 2}
 EqualMetrics = TRUE
CHECK_DEADLOCK FALSE
