SPECIFICATION Spec
CONSTANTS NAtoms = 4
 MergeNum = 1
 MergeDen = 2
 CleanResetsCache = TRUE
INVARIANT TypeOK
INVARIANT NonEmpty
INVARIANT InRange
INVARIANT PairwiseDisjoint
INVARIANT SpeciesConsistent
INVARIANT Connected
INVARIANT HasRegion
INVARIANT CacheCoherent
PROPERTY SeedProgress
PROPERTY LocalizeRefinesProvedStep
CHECK_DEADLOCK FALSE
