SPECIFICATION Spec
CONSTANT DMax = 2
INVARIANT MicSymmetric
INVARIANT SafeKSuffices
INVARIANT BasisIndependent
INVARIANT MicBelowDirect
INVARIANT ShiftInvariant
CHECK_DEADLOCK FALSE
