------------------------------ MODULE Crystal -------------------------------
(* The analyzer's observable contract on recorded executions (C05, C06, C07, C08, C12).
   Fractional coordinates are integers modulo Q = 960000 (every 1/24 table constant is exact); space-group
   operations act exactly; matching is componentwise within Eps units modulo Q.
   Ref = spglib Hall-database groups (independent of MatID's tables); Tab = MatID's live Wyckoff table
   (used only where the property itself refers to it: the representative expression and its variables). *)
EXTENDS SymGroup, Json, IOUtils

Ref == JsonDeserialize(IOEnv.REFGROUPS)
Tab == JsonDeserialize(IOEnv.SYMDATA)
Tr == ndJsonDeserialize(IOEnv.TRACE_FILE)
Mode == IOEnv.MODE
Q == 960000
Eps == 8
QU == Q \div U
ToSet(s) == {s[k] : k \in 1..Len(s)}
Abs(x) == IF x < 0 THEN -x ELSE x

ApplyOp(g, p) == << (Dot(g.R[1], p) + g.t[1] * QU) % Q, (Dot(g.R[2], p) + g.t[2] * QU) % Q, (Dot(g.R[3], p) + g.t[3] * QU) % Q >>
Circ(a, b) == LET d == (a - b) % Q IN IF d <= Q - d THEN d ELSE Q - d
CloseE(p, q, eps) == Circ(p[1], q[1]) <= eps /\ Circ(p[2], q[2]) <= eps /\ Circ(p[3], q[3]) <= eps
Close(p, q) == CloseE(p, q, Eps)
Ops(sg) == [k \in 1..Len(Ref[sg].ops) |-> [R |-> Ref[sg].ops[k].R, t |-> Ref[sg].ops[k].t]]
PosOf(sg, letter) == LET k == CHOOSE k \in 1..Len(Tab[sg].pos) : Tab[sg].pos[k].letter = letter IN Tab[sg].pos[k]


---------------------------------------------------------------------------
\* C07: Wyckoff sets are exactly the symmetry orbits of the conventional cell
AllAtoms(e) == 1..e.conv.n
SetsPartition(e) == /\ \A a \in AllAtoms(e) : Cardinality({j \in 1..Len(e.sets) : a \in ToSet(e.sets[j].idx)}) = 1
                    /\ \A j \in 1..Len(e.sets) : ToSet(e.sets[j].idx) \subseteq AllAtoms(e)
SetUniform(e) == \A j \in 1..Len(e.sets) : \A a \in ToSet(e.sets[j].idx) :
                    e.conv.z[a] = e.sets[j].z /\ e.let_conv[a] = e.sets[j].letter
Multiplicity(e) == \A j \in 1..Len(e.sets) : e.sets[j].mult = Len(e.sets[j].idx) /\ Cardinality(ToSet(e.sets[j].idx)) = Len(e.sets[j].idx)
SetIsOrbit(e) == \A j \in 1..Len(e.sets) :
   LET mem == ToSet(e.sets[j].idx)
       p0 == e.conv.pos[e.sets[j].idx[1]]
       ops == Ops(e.number)
       imgs == {ApplyOp(ops[g], p0) : g \in 1..Len(ops)}
   IN /\ \A im \in imgs : \E a \in mem : Close(im, e.conv.pos[a])
      /\ \A a \in mem : \E im \in imgs : Close(im, e.conv.pos[a])
      /\ \A im \in imgs : \A a \in AllAtoms(e) \ mem : ~Close(im, e.conv.pos[a])
\* per-atom arrays induce the same partition as the sets
ArraysAgree(e) == /\ Len(e.let_conv) = e.conv.n /\ Len(e.eq_conv) = e.conv.n
                  /\ \A j \in 1..Len(e.sets) : \A a, b \in ToSet(e.sets[j].idx) : e.eq_conv[a] = e.eq_conv[b]
                  /\ \A i, j \in 1..Len(e.sets) : i # j => e.eq_conv[e.sets[i].idx[1]] # e.eq_conv[e.sets[j].idx[1]]
\* the letters an independent assignment gives to the returned structure (only when that assignment is made
\* in the same setting: identity transformation, zero origin shift)
LettersIndependent(e) == (e.ind_conv.identity /\ e.ind_conv.number = e.number) =>
                            \A a \in AllAtoms(e) : e.ind_conv.letters[a] = e.let_conv[a]
\* every atom lies on (an expression of) the Wyckoff position whose letter it carries, and the set has that
\* position's multiplicity - so the letter cannot belong to a more special or a displaced position.
\* (n . (p - c)) = 0 mod lattice for every small integer n annihilating the expression's column space.
OnExpr(p, M, c) == \A n \in Ann(M) : Circ(Dot(n, << (p[1] - c[1] * QU) % Q, (p[2] - c[2] * QU) % Q, (p[3] - c[3] * QU) % Q >>) % Q, 0) <= 6 * Eps
TransOf(sg) == {<<0, 0, 0>>} \cup {Tab[sg].trans[k] : k \in 1..Len(Tab[sg].trans)}
LiesOn(e, a, letter) == LET p == PosOf(e.number, letter) IN
   \E x \in 1..Len(p.nm) : \E t \in TransOf(e.number) : OnExpr(e.conv.pos[a], p.nm[x], VAdd(p.nc[x], t))
AtomsLieOnTheirLetter(e) == \A a \in AllAtoms(e) : LiesOn(e, a, e.let_conv[a])
LetterMultiplicity(e) == \A j \in 1..Len(e.sets) :
   Len(e.sets[j].idx) = PosOf(e.number, e.sets[j].letter).nexpr * (Len(Tab[e.number].trans) + 1)
V07(e) == IF ~SetsPartition(e) THEN "SetsPartition" ELSE IF ~SetUniform(e) THEN "SetUniform"
          ELSE IF ~LetterMultiplicity(e) THEN "LetterMultiplicity" ELSE IF ~AtomsLieOnTheirLetter(e) THEN "AtomsLieOnTheirLetter"
          ELSE IF ~Multiplicity(e) THEN "Multiplicity" ELSE IF ~ArraysAgree(e) THEN "ArraysAgree"
          ELSE IF ~SetIsOrbit(e) THEN "SetIsOrbit" ELSE IF ~LettersIndependent(e) THEN "LettersIndependent" ELSE "ok"

---------------------------------------------------------------------------
\* C08: reported free parameters regenerate the atoms of their set
VarsOf(sg, letter) == ToSet(PosOf(sg, letter).vars)
Reported(ps) == (IF ps.x # -1 THEN {"x"} ELSE {}) \cup (IF ps.y # -1 THEN {"y"} ELSE {}) \cup (IF ps.z_ # -1 THEN {"z"} ELSE {})
ParamsReturned(e) == e.psets_error = ""
ParamsExactlyFree(e) == \A j \in 1..Len(e.psets) : Reported(e.psets[j]) = VarsOf(e.number, e.psets[j].letter)
ParamsInUnitInterval(e) == \A j \in 1..Len(e.psets) : e.psets[j].in_unit
\* representative expression (first expression of the live table) evaluated at the reported values
Val(v) == IF v = -1 THEN 0 ELSE v
RepPoint(e, ps) == LET p == PosOf(e.number, ps.letter)
                       W == << Val(ps.x), Val(ps.y), Val(ps.z_) >>
                   IN << (Dot(p.nm[1][1], W) + p.nc[1][1] * QU) % Q, (Dot(p.nm[1][2], W) + p.nc[1][2] * QU) % Q,
                         (Dot(p.nm[1][3], W) + p.nc[1][3] * QU) % Q >>
\* For a two-dimensionally periodic input the conventional cell is re-sized and centred along its non-periodic
\* vector, which is not a lattice direction: "modulo lattice translations" can then only refer to the plane, and the
\* comparison is made on the two periodic components.
CloseInPlane(p, q, eps) == Circ(p[1], q[1]) <= eps /\ Circ(p[2], q[2]) <= eps
ParamsRegenerate(e) == \A j \in 1..Len(e.psets) :
                          \E a \in ToSet(e.psets[j].idx) :
                             IF e.two_dimensional THEN CloseInPlane(RepPoint(e, e.psets[j]), e.conv.pos[a], e.eps_tol)
                             ELSE CloseE(RepPoint(e, e.psets[j]), e.conv.pos[a], e.eps_tol)
RepresentativeIsTabulated(e) == \A j \in 1..Len(e.psets) : e.psets[j].rep_parsed = <<PosOf(e.number, e.psets[j].letter).nm[1], PosOf(e.number, e.psets[j].letter).nc[1]>>
HasFreeFlag(e) == e.has_free = (\E j \in 1..Len(e.sets) : VarsOf(e.number, e.sets[j].letter) # {})
SameSetsWithAndWithoutParams(e) == {<<e.psets[j].letter, e.psets[j].z, ToSet(e.psets[j].idx)>> : j \in 1..Len(e.psets)}
                                     = {<<e.sets[j].letter, e.sets[j].z, ToSet(e.sets[j].idx)>> : j \in 1..Len(e.sets)}
V08(e) == IF ~ParamsReturned(e) THEN "ParamsReturned" ELSE IF ~SameSetsWithAndWithoutParams(e) THEN "SameSetsWithAndWithoutParams"
          ELSE IF ~ParamsExactlyFree(e) THEN "ParamsExactlyFree" ELSE IF ~ParamsInUnitInterval(e) THEN "ParamsInUnitInterval"
          ELSE IF ~ParamsRegenerate(e) THEN "ParamsRegenerate" ELSE IF ~HasFreeFlag(e) THEN "HasFreeFlag" ELSE "ok"

---------------------------------------------------------------------------
\* C12: original, primitive and conventional descriptions are mutually consistent
CentringMult(c) == CASE c = "P" -> 1 [] c \in {"A", "B", "C", "I"} -> 2 [] c = "R" -> 3 [] c = "F" -> 4
OneEntryPerAtom(e) == /\ Len(e.let_orig) = e.n_in /\ Len(e.eq_orig) = e.n_in
                      /\ Len(e.let_prim) = e.prim.n /\ Len(e.eq_prim) = e.prim.n
                      /\ Len(e.let_conv) = e.conv.n /\ Len(e.eq_conv) = e.conv.n
EquivUniform(zs, ls, eqs) == \A a, b \in 1..Len(zs) : eqs[a] = eqs[b] => (zs[a] = zs[b] /\ ls[a] = ls[b])
EquivalentShareElementAndLetter(e) == /\ EquivUniform(e.z_orig, e.let_orig, e.eq_orig)
                                      /\ EquivUniform(e.prim.z, e.let_prim, e.eq_prim)
                                      /\ EquivUniform(e.conv.z, e.let_conv, e.eq_conv)
Count(zs, ls, key) == Cardinality({a \in 1..Len(zs) : <<ls[a], zs[a]>> = key})
Keys(zs, ls) == {<<ls[a], zs[a]>> : a \in 1..Len(zs)}
LetterCountsProportional(e) ==
   LET K == Keys(e.z_orig, e.let_orig) \cup Keys(e.prim.z, e.let_prim) \cup Keys(e.conv.z, e.let_conv) IN
   \A k \in K : /\ Count(e.z_orig, e.let_orig, k) * e.prim.n = Count(e.prim.z, e.let_prim, k) * e.n_in
                /\ Count(e.conv.z, e.let_conv, k) * e.prim.n = Count(e.prim.z, e.let_prim, k) * e.conv.n
PrimitiveRatios(e) == LET m == CentringMult(Ref[e.number].centring) IN
                      /\ e.conv.n = m * e.prim.n
                      /\ Abs(e.conv.vol - m * e.prim.vol) <= 4 + e.conv.vol \div 100000
IsPrimitive(e) == e.ind_prim.n_primitive = e.prim.n
PrimitiveSameGroup(e) == e.ind_prim.number = e.number
\* volume per atom of the primitive cell matches the input:  vol_prim / n_prim = vol_in / n_in  (1e-3 A^3 units, +-1e-4 relative)
VolumePerAtom(e) == LET lhs == (e.prim.vol \div 8) * (e.n_in)  rhs == (e.vol_in \div 8) * (e.prim.n)
                    IN Abs(lhs - rhs) <= (lhs \div 5000) + e.n_in + e.prim.n
\* ---- binding of the label transport (design model: Mappings.tla) to the dataset the analyzer worked from:
\* every atom of the conventional cell carries the (normalizer-permuted) letter and the orbit of the input atoms that are its
\* translational copies; pi ranges over the tabulated letter permutations of the group and the identity
DsFibre(e, k) == CHOOSE o \in 1..Len(e.ds.m2p) : e.ds.m2p[o] = k
DsSane(e) == /\ e.ds.has /\ Len(e.ds.wy) = e.n_in /\ Len(e.ds.m2p) = e.n_in /\ Len(e.ds.orb) = e.n_in
             /\ \A o1, o2 \in 1..e.n_in : e.ds.m2p[o1] = e.ds.m2p[o2] => (e.ds.wy[o1] = e.ds.wy[o2] /\ e.ds.orb[o1] = e.ds.orb[o2] /\ e.z_orig[o1] = e.z_orig[o2])
             /\ \A c \in 1..Len(e.ds.s2p) : \E o \in 1..e.n_in : e.ds.m2p[o] = e.ds.s2p[c]
PermApply(n, l) == IF \E i \in 1..Len(n.pfrom) : n.pfrom[i] = l THEN n.pto[CHOOSE i \in 1..Len(n.pfrom) : n.pfrom[i] = l] ELSE l
IdPerm == [pfrom |-> <<>>, pto |-> <<>>]
LetterPerms(sg) == {IdPerm} \cup {[pfrom |-> Tab[sg].norms[k].pfrom, pto |-> Tab[sg].norms[k].pto] : k \in 1..Len(Tab[sg].norms)}
DatasetCarried(e) ==
   /\ Len(e.ds.s2p) = e.conv.n /\ Len(e.let_conv) = e.conv.n /\ Len(e.eq_conv) = e.conv.n /\ Len(e.let_orig) = e.n_in /\ Len(e.eq_orig) = e.n_in
   /\ \A o \in 1..e.n_in : e.eq_orig[o] = e.ds.orb[o]
   /\ \A c \in 1..e.conv.n : e.conv.z[c] = e.z_orig[DsFibre(e, e.ds.s2p[c])]
   /\ \A c1, c2 \in 1..e.conv.n : (e.eq_conv[c1] = e.eq_conv[c2]) <=> (e.ds.orb[DsFibre(e, e.ds.s2p[c1])] = e.ds.orb[DsFibre(e, e.ds.s2p[c2])])
   /\ \E n \in LetterPerms(e.number) :
         /\ \A o \in 1..e.n_in : e.let_orig[o] = PermApply(n, e.ds.wy[o])
         /\ \A c \in 1..e.conv.n : e.let_conv[c] = PermApply(n, e.ds.wy[DsFibre(e, e.ds.s2p[c])])
V12(e) == IF ~OneEntryPerAtom(e) THEN "OneEntryPerAtom" ELSE IF ~EquivalentShareElementAndLetter(e) THEN "EquivalentShareElementAndLetter"
          ELSE IF ~LetterCountsProportional(e) THEN "LetterCountsProportional" ELSE IF ~PrimitiveRatios(e) THEN "PrimitiveRatios"
          ELSE IF ~IsPrimitive(e) THEN "IsPrimitive" ELSE IF ~PrimitiveSameGroup(e) THEN "PrimitiveSameGroup"
          ELSE IF ~VolumePerAtom(e) THEN "VolumePerAtom"
          ELSE IF ~DsSane(e) THEN "DRIFT-DatasetNotAsAssumed" ELSE IF ~DatasetCarried(e) THEN "LabelsCarriedFromTheDataset" ELSE "ok"

---------------------------------------------------------------------------
\* C05: the conventional cell is the same crystal, chirality preserved
HoloGroup(brav) == LET f == SubSeq(brav, 1, 1)  c == SubSeq(brav, 2, 2) IN
   CASE f = "a" -> 2 [] f = "m" -> 10 [] f = "o" -> 47 [] f = "t" -> 123 [] (f = "h" /\ c = "R") -> 166
     [] (f = "h" /\ c # "R") -> 191 [] f = "c" -> 221
ProperHolo(brav) == {g.R : g \in {h \in OpSet(Ref[HoloGroup(brav)].ops) : Det(h.R) = 1}}
GroupDetected(e) == e.number = e.sg
IndependentGroupEqual(e) == e.ind_conv.number = e.number
ParClose(a, b) == /\ \A k \in 1..3 : Abs(a[k] - b[k]) <= 20          \* 2e-3 A
                  /\ \A k \in 4..6 : Abs(a[k] - b[k]) <= 100         \* 1e-2 degrees
StdLattice(e) == ParClose(e.conv.par, e.std.par)
ZCount(zs, z) == Cardinality({a \in 1..Len(zs) : zs[a] = z})
SameComposition(e) == \A z \in ToSet(e.z_orig) \cup ToSet(e.conv.z) : ZCount(e.conv.z, z) * e.n_in = ZCount(e.z_orig, z) * e.conv.n
SameDensity(e) == LET lhs == (e.conv.vol \div 8) * e.n_in  rhs == (e.vol_in \div 8) * e.conv.n
                  IN Abs(lhs - rhs) <= (lhs \div 5000) + e.n_in + e.conv.n
Moved(A, t, p) == << (Dot(A[1], p) + t[1]) % Q, (Dot(A[2], p) + t[2]) % Q, (Dot(A[3], p) + t[3]) % Q >>
MapsOnto(e, A, t) == /\ e.conv.n = Len(e.std.z)
                     /\ \A a \in 1..e.conv.n : \E b \in 1..Len(e.std.z) : e.std.z[b] = e.conv.z[a] /\ Close(Moved(A, t, e.conv.pos[a]), e.std.pos[b])
                     /\ \A b \in 1..Len(e.std.z) : \E a \in 1..e.conv.n : e.std.z[b] = e.conv.z[a] /\ Close(Moved(A, t, e.conv.pos[a]), e.std.pos[b])
\* proper rigid motion + lattice translation carrying the returned atoms onto the idealized standardized atoms
ConvCongruentProper(e) ==
   IF e.hint_ok THEN Det(e.hint.A) = 1 /\ e.hint.A \in ProperHolo(e.bravais) /\ MapsOnto(e, e.hint.A, e.hint.t)
   ELSE \E A \in ProperHolo(e.bravais) : \E b \in {x \in 1..Len(e.std.z) : e.std.z[x] = e.conv.z[1]} :
           LET i0 == Moved(A, <<0, 0, 0>>, e.conv.pos[1])
               t == << (e.std.pos[b][1] - i0[1]) % Q, (e.std.pos[b][2] - i0[2]) % Q, (e.std.pos[b][3] - i0[3]) % Q >>
           IN MapsOnto(e, A, t)
\* the standardization itself is a proper image of the input and both cells are right-handed
\* (a left-handed input basis is legitimately taken to the right-handed standard cell by a transformation of negative determinant)
Handedness(e) == e.std.detP_sign * e.in_det_sign = e.std.det_sign /\ e.conv.det_sign = 1 /\ e.std.det_sign = 1
V05(e) == IF ~GroupDetected(e) THEN "GroupDetected" ELSE IF ~IndependentGroupEqual(e) THEN "IndependentGroupEqual"
          ELSE IF ~StdLattice(e) THEN "StdLattice" ELSE IF ~SameComposition(e) THEN "SameComposition"
          ELSE IF ~SameDensity(e) THEN "SameDensity" ELSE IF ~Handedness(e) THEN "Handedness"
          ELSE IF ~ConvCongruentProper(e) THEN "ConvCongruentProper" ELSE "ok"

---------------------------------------------------------------------------
\* C06: normal form - every presentation reports what the first presentation of the same crystal reports
Occ(e) == {<<e.sets[j].letter, e.sets[j].z, e.sets[j].mult, Cardinality({k \in 1..Len(e.sets) : <<e.sets[k].letter, e.sets[k].z, e.sets[k].mult>> = <<e.sets[j].letter, e.sets[j].z, e.sets[j].mult>>})>> : j \in 1..Len(e.sets)}
F(e) == Tr[e.first]
SameLabels(e) == /\ e.id = F(e).id /\ e.number = F(e).number /\ e.hall = F(e).hall /\ e.pointgroup = F(e).pointgroup
                 /\ e.bravais = F(e).bravais /\ e.system = F(e).system /\ e.has_free = F(e).has_free
SameOccupation(e) == Occ(e) = Occ(F(e))
\* without free parameters and with a metrically fixed lattice type the conventional cell itself is identical
Rigid(e) == ~e.has_free /\ e.number >= 16
SameCell(e) == Rigid(e) => /\ ParClose(e.conv.par, F(e).conv.par)
                           /\ e.conv.n = F(e).conv.n
                           /\ \A a \in 1..e.conv.n : \E b \in 1..F(e).conv.n : e.conv.z[a] = F(e).conv.z[b] /\ Close(e.conv.pos[a], F(e).conv.pos[b])
                           /\ \A b \in 1..F(e).conv.n : \E a \in 1..e.conv.n : e.conv.z[a] = F(e).conv.z[b] /\ Close(e.conv.pos[a], F(e).conv.pos[b])
V06(e) == IF ~GroupDetected(e) THEN "GroupDetected" ELSE IF ~SameLabels(e) THEN "SameLabels"
          ELSE IF ~SameOccupation(e) THEN "SameOccupation" ELSE IF ~SameCell(e) THEN "SameCell" ELSE "ok"

Verdict(e) == CASE Mode = "C05" -> V05(e) [] Mode = "C06" -> V06(e) [] Mode = "C07" -> V07(e)
                [] Mode = "C08" -> V08(e) [] Mode = "C12" -> V12(e)
VARIABLES i, done
vars == <<i, done>>
Init == i \in 1..Len(Tr) /\ done = FALSE
Next == /\ ~done
        /\ LET v == Verdict(Tr[i]) IN IF v = "ok" THEN TRUE ELSE PrintT(<<"FAIL", Tr[i].tid, v>>)
        /\ done' = TRUE /\ i' = i
Spec == Init /\ [][Next]_vars
=============================================================================
