------------------------------- MODULE RadiiDefs -----------------------------
(* C19 - radii presets.  The documented tables (ASE covalent_radii = Cordero et al.,
   vdw_alvarez.vdw_radii = Alvarez) are read from JSON in units of 1e-4 Angstrom,
   -1 meaning "not tabulated" (NaN in the arrays).  The model is the resolution
   rule of the three presets; TraceRadii binds it to matid.geometry.get_radii. *)
EXTENDS Integers, Sequences, FiniteSets, TLC, Json, IOUtils

Ref == JsonDeserialize(IOEnv.RADII_REF)      \* [covalent |-> <<..>>, vdw |-> <<..>>], index = Z (1..103)
ZMax == Len(Ref.covalent)
Presets == {"covalent", "vdw", "vdw_covalent"}
Undefined == -1

Resolve(preset, z) ==
  CASE preset = "covalent" -> Ref.covalent[z]
    [] preset = "vdw" -> Ref.vdw[z]
    [] preset = "vdw_covalent" -> IF Ref.vdw[z] # Undefined THEN Ref.vdw[z] ELSE Ref.covalent[z]
=============================================================================
