SPECIFICATION TSpec
CONSTANTS NAtoms = 1
 MergeNum = 1
 MergeDen = 2
 CleanResetsCache = TRUE
INVARIANT NonEmpty
INVARIANT PairwiseDisjoint
INVARIANT SpeciesConsistent
INVARIANT InRange
CHECK_DEADLOCK FALSE
