----------------------------- MODULE SBCScript ------------------------------
(* spec -> code direction for the SBC pipeline.  SBC.tla extended with a history variable that
   records the environment's answers (the seed order and each get_region answer).  Under
   `tlc -simulate` every behaviour that reaches pc = "done" is printed as one JSON object; the harness
   replays the script into the *real* SBC.get_clusters (scripted PeriodicFinder.get_region, scripted
   seed choice, distance matrix realising Bond/Near) and validates the recorded execution with
   TraceSBC / TraceSBCVerdict. *)
EXTENDS SBC, Json

VARIABLE script
svars == <<vars, script>>

SInit == Init /\ script = <<>>
\* realistic environment (validated on every real trace, see TraceSBC!EnvObserved): a found region contains its seed
SSeed == \E s \in remaining : \E mask \in SUBSET {a \in Atoms : Z[a] = Z[s]} :
           \/ /\ SeedStep(s, mask, FALSE, {})
              /\ script' = Append(script, [s |-> s, mask |-> mask, has |-> FALSE, grain |-> {}])
           \/ \E grain \in SUBSET Atoms :
              /\ s \in grain
              /\ SeedStep(s, mask, TRUE, grain)
              /\ script' = Append(script, [s |-> s, mask |-> mask, has |-> TRUE, grain |-> grain])
SOther == /\ \/ SeedDone \/ MergeStep \/ MergeDone \/ LocalizeStep \/ LocalizeDone
             \/ (\E keep \in SUBSET Atoms : CleanStep(keep)) \/ CleanDone
          /\ UNCHANGED script
SNext == SSeed \/ SOther
SSpec == SInit /\ [][SNext]_svars

\* emitted once per behaviour: the first state with pc = "done"
Emit == pc = "done" =>
          PrintT(<<"SCRIPT", ToJson([n |-> n, z |-> Z, bond |-> Bond, near |-> Near, thr |-> thr, script |-> script,
                                      model_final |-> [j \in 1..Len(clusters) |-> clusters[j].idx]])>>)
=============================================================================
