------------------------------ MODULE Localize ------------------------------
(* The overlap-resolution loop of SBC._localize_clusters for an arbitrary number of atoms N and clusters K,
   with the choice of the winning cluster left open (any holder of the atom).  Proved with TLAPS:
   when the loop has visited every atom, the clusters are pairwise disjoint.  This is the unbounded
   counterpart of the invariant PairwiseDisjoint that TLC checks on SBC.tla for N <= 4. *)
EXTENDS Integers, TLAPS

CONSTANTS N, K
ASSUME ConstAssump == N \in Nat /\ K \in Nat

VARIABLES cl, cur
vars == <<cl, cur>>

TypeOK == /\ cl \in [1..K -> SUBSET (1..N)]
          /\ cur \in 1..(N + 1)
Holders(a) == {j \in 1..K : a \in cl[j]}

Init == /\ cl \in [1..K -> SUBSET (1..N)]
        /\ cur = 1
\* atom cur: every cluster except the winner w (some holder, if there is one) gives the atom up
Step == /\ cur <= N
        /\ \E w \in 1..K :
             /\ (Holders(cur) # {} => w \in Holders(cur))
             /\ cl' = [j \in 1..K |-> IF j # w THEN cl[j] \ {cur} ELSE cl[j]]
        /\ cur' = cur + 1
Next == Step
Spec == Init /\ [][Next]_vars

\* atoms already visited belong to at most one cluster
Resolved == \A a \in 1..(cur - 1) : \A j, k \in 1..K : (a \in cl[j] /\ a \in cl[k]) => j = k
Inv == TypeOK /\ Resolved
PairwiseDisjoint == \A j, k \in 1..K : j # k => cl[j] \cap cl[k] = {}

THEOREM InitInv == Init => Inv
  BY ConstAssump DEF Init, Inv, TypeOK, Resolved

THEOREM StepInv == Inv /\ [Next]_vars => Inv'
<1> SUFFICES ASSUME Inv, [Next]_vars PROVE Inv'
  OBVIOUS
<1>1. CASE UNCHANGED vars
  BY <1>1 DEF Inv, TypeOK, Resolved, vars
<1>2. CASE Step
  <2>1. PICK w \in 1..K : /\ (Holders(cur) # {} => w \in Holders(cur))
                          /\ cl' = [j \in 1..K |-> IF j # w THEN cl[j] \ {cur} ELSE cl[j]]
    BY <1>2 DEF Step
  <2>2. cur' = cur + 1 /\ cur <= N
    BY <1>2 DEF Step
  <2>3. TypeOK'
    BY <2>1, <2>2, ConstAssump DEF Inv, TypeOK
  <2>4. Resolved'
    <3> SUFFICES ASSUME NEW a \in 1..(cur' - 1), NEW j \in 1..K, NEW k \in 1..K, a \in cl'[j], a \in cl'[k]
                 PROVE j = k
      BY DEF Resolved
    <3>1. CASE a = cur
      <4>1. j = w
        BY <2>1, <3>1 DEF Inv, TypeOK
      <4>2. k = w
        BY <2>1, <3>1 DEF Inv, TypeOK
      <4> QED BY <4>1, <4>2
    <3>2. CASE a # cur
      <4>1. a \in 1..(cur - 1)
        BY <2>2, <3>2, ConstAssump DEF Inv, TypeOK
      <4>2. a \in cl[j] /\ a \in cl[k]
        BY <2>1 DEF Inv, TypeOK
      <4> QED BY <4>1, <4>2 DEF Inv, Resolved
    <3> QED BY <3>1, <3>2
  <2> QED BY <2>3, <2>4 DEF Inv
<1> QED BY <1>1, <1>2 DEF Next

THEOREM Safety == Spec => []Inv
  BY InitInv, StepInv, PTL DEF Spec

\* when the loop is over (cur = N + 1) the invariant is pairwise disjointness
THEOREM Final == Inv /\ cur = N + 1 => PairwiseDisjoint
<1> SUFFICES ASSUME Inv, cur = N + 1, NEW j \in 1..K, NEW k \in 1..K, j # k PROVE cl[j] \cap cl[k] = {}
  BY DEF PairwiseDisjoint
<1>1. \A a \in cl[j] \cap cl[k] : a \in 1..(cur - 1)
  BY ConstAssump DEF Inv, TypeOK
<1> QED BY <1>1 DEF Inv, Resolved
=============================================================================
