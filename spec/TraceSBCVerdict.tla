-------------------------- MODULE TraceSBCVerdict ---------------------------
(* Property predicates of C01 / C02 / C03 / C13 evaluated on recorded executions of
   SBC.get_clusters (public API observations only).  One record = one execution = one state.
   The independent bonding graph (adjC certain edges, adjM edges within 1e-6 of the threshold)
   is computed by the harness with ASE's minimum-image convention and handed in as data;
   reachability is computed here. *)
EXTENDS Integers, Sequences, FiniteSets, TLC, Json, IOUtils

Tr == ndJsonDeserialize(IOEnv.TRACE_FILE)
Mode == IOEnv.MODE            \* "C01" | "C02" | "C03" | "C13"

ToSet(s) == {s[k] : k \in 1..Len(s)}
Adj(e, a) == ToSet(e.adjC[a]) \cup ToSet(e.adjM[a])
RECURSIVE Reach(_, _, _, _)
Reach(e, S, visited, frontier) ==
  IF frontier = {} THEN visited
  ELSE LET nb == (UNION {Adj(e, a) : a \in frontier}) \cap S
           new == nb \ visited
       IN Reach(e, S, visited \cup new, new)
ConnectedSet(e, S) == S = {} \/ (LET a == CHOOSE x \in S : TRUE IN Reach(e, S, {a}, {a}) = S)

\* ---- C01
NonEmpty(e) == \A j \in 1..Len(e.final) : Len(e.final[j].idx) > 0
DupFree(e) == \A j \in 1..Len(e.final) : Cardinality(ToSet(e.final[j].idx)) = Len(e.final[j].idx)
InRange(e) == \A j \in 1..Len(e.final) : ToSet(e.final[j].idx) \subseteq 1..e.n
PairwiseDisjoint(e) == \A i, j \in 1..Len(e.final) : i < j => ToSet(e.final[i].idx) \cap ToSet(e.final[j].idx) = {}
SpeciesConsistent(e) == \A j \in 1..Len(e.final) : \A a \in ToSet(e.final[j].idx) : e.z[a] \in ToSet(e.final[j].sp)
Connected(e) == \A j \in 1..Len(e.final) : ConnectedSet(e, ToSet(e.final[j].idx))
ProtoCellPeriodic(e) == \A j \in 1..Len(e.final) : e.final[j].cellpbc \in {2, 3}
InputUntouched(e) == e.untouched
RerunIdentical(e) == e.rerun = [j \in 1..Len(e.final) |-> e.final[j].idx]
\* the same SBC object, previously used with other radii / thresholds, gives the same answer
HistoryIndependent(e) == ~e.history_run \/ e.rerun_history = [j \in 1..Len(e.final) |-> e.final[j].idx]
FailureOnlyValueErrorOnZeroPeriodicVector(e) == e.error = "" \/ (e.error = "ValueError" /\ e.zero_periodic_vector)

V01(e) ==
  IF ~FailureOnlyValueErrorOnZeroPeriodicVector(e) THEN "FailureOnlyValueErrorOnZeroPeriodicVector"
  ELSE IF ~InputUntouched(e) THEN "InputUntouched"
  ELSE IF e.error # "" THEN "ok"
  ELSE IF ~NonEmpty(e) THEN "NonEmpty" ELSE IF ~DupFree(e) THEN "DupFree" ELSE IF ~InRange(e) THEN "InRange"
  ELSE IF ~PairwiseDisjoint(e) THEN "PairwiseDisjoint" ELSE IF ~SpeciesConsistent(e) THEN "SpeciesConsistent"
  ELSE IF ~ProtoCellPeriodic(e) THEN "ProtoCellPeriodic"
  ELSE IF ~Connected(e) THEN "Connected"
  ELSE IF ~RerunIdentical(e) THEN "RerunIdentical"
  ELSE IF ~HistoryIndependent(e) THEN "HistoryIndependent"
  ELSE "ok"

\* ---- C02 / C03: the clusters are exactly the expected partition (known from construction), with dimensionality
ExpectedPartition(e) == {ToSet(e.final[j].idx) : j \in 1..Len(e.final)} = {ToSet(e.expected[k]) : k \in 1..Len(e.expected)}
                        /\ Len(e.final) = Len(e.expected)
ExpectedDims(e) == \A j \in 1..Len(e.dims) : e.dims[j].shortcut = e.expected_dim
V02(e) == IF e.error # "" THEN "ReturnsNormally" ELSE IF ~ExpectedPartition(e) THEN "ExpectedPartition"
          ELSE IF ~ExpectedDims(e) THEN "ExpectedDimensionality" ELSE "ok"

\* ---- C13
ShortcutAgrees(e) == \A j \in 1..Len(e.dims) : e.dims[j].shortcut = e.dims[j].direct
DimStable(e) == \A j \in 1..Len(e.dims) : e.dims[j].again = e.dims[j].shortcut
\* what the shortcut evaluates: the cluster's own atoms, each with its own clustering radius and its own row of the cached distance
\* table, at the clustering threshold (recorded at the call of get_dimensionality inside the shortcut; atoms identified by position)
ShortcutEvaluatesOwnAtoms(e) == \A j \in 1..Len(e.dims) : e.dims[j].args_ok
V13(e) == IF e.error # "" THEN "ok" ELSE IF ~ShortcutAgrees(e) THEN "ShortcutAgrees" ELSE IF ~DimStable(e) THEN "DimStable"
          ELSE IF ~ShortcutEvaluatesOwnAtoms(e) THEN "ShortcutEvaluatesOwnAtomsWithClusteringRadiiAndThreshold" ELSE "ok"

Verdict(e) == CASE Mode = "C01" -> V01(e) [] Mode = "C13" -> V13(e) [] Mode \in {"C02", "C03"} -> V02(e)

VARIABLES i, done
vars == <<i, done>>
Init == i \in 1..Len(Tr) /\ done = FALSE
Next == /\ ~done
        /\ LET v == Verdict(Tr[i]) IN IF v = "ok" THEN TRUE ELSE PrintT(<<"FAIL", Tr[i].tid, v>>)
        /\ done' = TRUE /\ i' = i
Spec == Init /\ [][Next]_vars
=============================================================================
