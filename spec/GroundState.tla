----------------------------- MODULE GroundState ----------------------------
(* The normalizer selection of SymmetryAnalyzer._find_wyckoff_ground_state as an exact model, and the
   properties that depend on it (C05 handedness, C06 normal form).

   An occupation is a sequence of orbits [letter, z]; an orbit on letter l contributes Mult(l) atoms.
   Candidates: the identity followed by the tabulated normalizers in table order (after the repair the
   determinant -1 entries are skipped for groups without improper operations: FilterImproper).
   Selection: loop over letters in *ASCII* order ('A' sorts before 'a') and atomic numbers ascending; among
   the surviving candidates keep those with the largest number of atoms on (letter, z) if any has some;
   the first survivor in candidate order wins; survivors must then agree on the whole occupation map,
   otherwise the code raises.

   Each record of the trace is one occupation together with what the real code selected for it and for
   every image of it under the candidate permutations (moving the origin); TLC evaluates
     Conforms        - the model's selection equals the code's            (mismatch = model drift)
     NoError         - the tie check never raises
     ProperIfSohncke - a chiral group is never handed an improper transformation
     NormalForm      - every origin choice ends in the same occupation
   both on the code's answers and on the model's own selection. *)
EXTENDS SymGroup, Json, IOUtils, SequencesExt

Tab == JsonDeserialize(IOEnv.SYMDATA)
Ref == JsonDeserialize(IOEnv.REFGROUPS)
Tr == ndJsonDeserialize(IOEnv.TRACE_FILE)
FilterImproper == IOEnv.FILTER_IMPROPER = "1"

Ascii == <<"A", "a", "b", "c", "d", "e", "f", "g", "h", "i", "j", "k", "l", "m", "n", "o", "p", "q", "r", "s", "t", "u", "v", "w", "x", "y", "z">>
RankOf(l) == CHOOSE k \in 1..Len(Ascii) : Ascii[k] = l
IsSohncke(sg) == Sohncke(OpSet(Ref[sg].ops))
Mult(sg, l) == LET k == CHOOSE k \in 1..Len(Tab[sg].pos) : Tab[sg].pos[k].letter = l
               IN Tab[sg].pos[k].nexpr * (Len(Tab[sg].trans) + 1)

\* candidate k of group sg: 0 = identity, k >= 1 the k-th admissible table entry
Admissible(sg) == SelectSeq([k \in 1..Len(Tab[sg].norms) |-> k],
                            LAMBDA k : ~(FilterImproper /\ IsSohncke(sg)) \/ Det(Tab[sg].norms[k].A) = 1)
Cands(sg) == <<0>> \o Admissible(sg)
PermOf(sg, k, l) == IF k = 0 THEN l
                    ELSE LET n == Tab[sg].norms[k]  j == CHOOSE j \in 1..Len(n.pfrom) : n.pfrom[j] = l IN n.pto[j]
DetOf(sg, k) == IF k = 0 THEN 1 ELSE Det(Tab[sg].norms[k].A)

\* occupation map of an orbit list under candidate k: set of <<letter, z, atoms>>
Keys(sg, k, orbits) == {<<PermOf(sg, k, orbits[j].letter), orbits[j].z>> : j \in 1..Len(orbits)}
SumMult(sg, S, orbits) == LET idx == SetToSeq(S)
                              F[m \in 0..Len(idx)] == IF m = 0 THEN 0 ELSE F[m-1] + Mult(sg, orbits[idx[m]].letter)
                          IN F[Len(idx)]
CountOn(sg, k, orbits, key) == SumMult(sg, {j \in 1..Len(orbits) : <<PermOf(sg, k, orbits[j].letter), orbits[j].z>> = key}, orbits)
OccMap(sg, k, orbits) == {<<key[1], key[2], CountOn(sg, k, orbits, key)>> : key \in Keys(sg, k, orbits)}

\* letters the loop runs over: every image of every table permutation plus the occupied letters (identity)
LoopLetters(sg, orbits) == {orbits[j].letter : j \in 1..Len(orbits)}
                           \cup UNION {ToSet(Tab[sg].norms[k].pto) : k \in ToSet(Admissible(sg))}
Zs(orbits) == {orbits[j].z : j \in 1..Len(orbits)}
\* (letter, z) pairs in loop order
Pairs(sg, orbits) == LET ls == SortSeq(SetToSeq(LoopLetters(sg, orbits)), LAMBDA a, b : RankOf(a) < RankOf(b))
                         zs == SortSeq(SetToSeq(Zs(orbits)), LAMBDA a, b : a < b)
                     IN [m \in 1..(Len(ls) * Len(zs)) |-> <<ls[((m - 1) \div Len(zs)) + 1], zs[((m - 1) % Len(zs)) + 1]>>]
Filter(sg, orbits, reps, key) ==
  LET cnt(k) == CountOn(sg, k, orbits, key)
      mx == Max({cnt(reps[m]) : m \in 1..Len(reps)})
  IN IF mx = 0 THEN reps ELSE SelectSeq(reps, LAMBDA k : cnt(k) = mx)
Survivors(sg, orbits) == LET P == Pairs(sg, orbits)
                             F[m \in 0..Len(P)] == IF m = 0 THEN Cands(sg) ELSE Filter(sg, orbits, F[m-1], P[m])
                         IN F[Len(P)]
\* the code returns early (identity) when the group has no tabulated normalizer at all
ModelSelect(sg, orbits) ==
  IF Len(Tab[sg].norms) = 0 \/ Len(Cands(sg)) = 1 THEN [err |-> FALSE, k |-> 0]
  ELSE LET S == Survivors(sg, orbits) IN
       [err |-> \E m \in 2..Len(S) : OccMap(sg, S[m], orbits) # OccMap(sg, S[1], orbits), k |-> S[1]]
ModelOcc(sg, orbits) == OccMap(sg, ModelSelect(sg, orbits).k, orbits)

\* the occupation as spglib would hand it over after the origin was moved by candidate q
Moved(sg, q, orbits) == [j \in 1..Len(orbits) |-> [letter |-> PermOf(sg, q, orbits[j].letter), z |-> orbits[j].z]]

CodeOcc(r) == {<<r.occ[m][1], r.occ[m][2], r.occ[m][3]>> : m \in 1..Len(r.occ)}
Verdict(e) ==
  LET m == ModelSelect(e.sg, e.orbits) IN
  IF e.res.err # "" THEN "NoError"
  ELSE IF IsSohncke(e.sg) /\ e.res.det # 1 THEN "ProperIfSohncke"
  ELSE IF \E v \in 1..Len(e.variants) : e.variants[v].err # "" THEN "NoError"
  ELSE IF \E v \in 1..Len(e.variants) : CodeOcc(e.variants[v]) # CodeOcc(e.res) THEN "NormalForm"
  ELSE IF m.err THEN "DRIFT-ModelRaises"
  ELSE IF ModelOcc(e.sg, e.orbits) # CodeOcc(e.res) \/ DetOf(e.sg, m.k) # e.res.det THEN "DRIFT-Conforms"
  ELSE IF IsSohncke(e.sg) /\ DetOf(e.sg, m.k) # 1 THEN "DRIFT-ModelProperIfSohncke"
  ELSE IF \E q \in ToSet(Cands(e.sg)) : ModelOcc(e.sg, Moved(e.sg, q, e.orbits)) # ModelOcc(e.sg, e.orbits) THEN "DRIFT-ModelNormalForm"
  ELSE "ok"

VARIABLES i, done
vars == <<i, done>>
Init == i \in 1..Len(Tr) /\ done = FALSE
Next == /\ ~done
        /\ LET v == Verdict(Tr[i]) IN IF v = "ok" THEN TRUE ELSE PrintT(<<"FAIL", Tr[i].tid, v>>)
        /\ done' = TRUE /\ i' = i
Spec == Init /\ [][Next]_vars
=============================================================================
