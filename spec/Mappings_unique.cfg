SPECIFICATION Spec
CONSTANTS NOrig = 5
 NPrim = 3
 NConv = 4
 Variant = "unique"
INVARIANT LabelsCarried
CHECK_DEADLOCK FALSE
