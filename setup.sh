#!/bin/sh
# Offline setup: build the extension shim from /repo's working tree, parse all specs once.
cd "$(dirname "$0")" || exit 1
export PYTHONPATH="$PWD:${MATID_REPO:-/repo}"
/venv/bin/python -m mv.build_ext || exit 1
cd spec || exit 1
for f in *.tla; do
  java -cp /opt/veriftools/tla/tla2tools.jar:/opt/veriftools/tla/CommunityModules-deps.jar tla2sany.SANY "$f" >/tmp/sany.$$ 2>&1 || { cat /tmp/sany.$$; rm -f /tmp/sany.$$; exit 1; }
done
rm -f /tmp/sany.$$
echo "setup ok"
