"""Rebuild matid's C++ extension from /repo's working tree and install it as `matid.ext`.

pybind11 headers are not available in the sandbox, so geometry.cpp + celllist.cpp are compiled
unchanged against a small stand-in for the subset of pybind11::array_t they use (mv/shim) and
driven through ctypes.  ext.cpp (binding glue only) is the one file not exercised.
If pybind11 *is* importable the real module is built instead.
"""
import ctypes
import glob
import hashlib
import os
import subprocess
import sys
import types

import numpy as np

from .common import CACHE, REPO, MachineryError

SHIM = os.path.join(os.path.dirname(os.path.abspath(__file__)), "shim")
_lib = None


def _sources():
    d = os.path.join(REPO, "matid", "ext")
    return sorted(glob.glob(os.path.join(d, "*.cpp")) + glob.glob(os.path.join(d, "*.h")))


def source_hash():
    h = hashlib.sha1()
    for p in _sources() + [os.path.join(SHIM, "wrap.cpp"), os.path.join(SHIM, "pybind11", "numpy.h")]:
        h.update(os.path.basename(p).encode())
        h.update(open(p, "rb").read())
    return h.hexdigest()[:16]


def build():
    os.makedirs(CACHE, exist_ok=True)
    out = os.path.join(CACHE, "libmatid_ext-%s.so" % source_hash())
    if os.path.exists(out):
        return out
    d = os.path.join(REPO, "matid", "ext")
    tmp = out + ".tmp%d" % os.getpid()
    cmd = ["g++", "-O2", "-std=c++17", "-shared", "-fPIC", "-I", SHIM, "-I", d,
           os.path.join(d, "geometry.cpp"), os.path.join(d, "celllist.cpp"), os.path.join(SHIM, "wrap.cpp"),
           "-o", tmp]
    p = subprocess.run(cmd, stdout=subprocess.PIPE, stderr=subprocess.STDOUT, text=True)
    if p.returncode != 0:
        raise MachineryError("shim build of matid/ext failed:\n" + p.stdout[-4000:])
    os.replace(tmp, out)
    for old in glob.glob(os.path.join(CACHE, "libmatid_ext-*.so")):
        if old != out:
            try:
                os.remove(old)
            except OSError:
                pass
    return out


_D = ctypes.POINTER(ctypes.c_double)
_I = ctypes.POINTER(ctypes.c_int)


def _load():
    global _lib
    if _lib is None:
        _lib = ctypes.CDLL(build())
        _lib.ext_last_error.restype = ctypes.c_char_p
        _lib.ext_cell_list_new.restype = ctypes.c_void_p
        _lib.ext_cell_list_direct.restype = ctypes.c_void_p
        _lib.ext_cell_list_free.argtypes = [ctypes.c_void_p]
        _lib.ext_free.argtypes = [ctypes.c_void_p]
    return _lib


def _f(a, shape=None):
    a = np.ascontiguousarray(np.asarray(a), dtype=np.float64)
    if shape is not None and a.shape != shape:
        raise TypeError("incompatible function arguments: expected shape %s, got %s" % (shape, a.shape))
    return a


def _b(a):
    return np.ascontiguousarray(np.asarray(a), dtype=np.bool_)


def _take(ptr, ctype, n, cols=None):
    buf = np.ctypeslib.as_array(ptr, shape=(max(n, 1) * (cols or 1),))[: n * (cols or 1)].copy()
    _lib.ext_free(ctypes.cast(ptr, ctypes.c_void_p))
    if cols:
        buf = buf.reshape(n, cols)
    return buf


def _err():
    return ValueError(_lib.ext_last_error().decode())


class ExtendedSystem:
    pass


def extend_system(positions, atomic_numbers, cell, pbc, cutoff):
    lib = _load()
    P = _f(positions)
    Z = np.ascontiguousarray(np.asarray(atomic_numbers), dtype=np.int32)
    C, B = _f(cell, (3, 3)), _b(pbc)
    n = len(Z)
    op, on, oi, of = _D(), _I(), _I(), _D()
    m = lib.ext_extend_system(P.ctypes.data_as(_D), Z.ctypes.data_as(_I), n, C.ctypes.data_as(_D),
                              B.ctypes.data_as(ctypes.POINTER(ctypes.c_bool)), ctypes.c_double(cutoff),
                              ctypes.byref(op), ctypes.byref(on), ctypes.byref(oi), ctypes.byref(of))
    if m < 0:
        raise _err()
    s = ExtendedSystem()
    s.positions = _take(op, ctypes.c_double, m, 3)
    s.atomic_numbers = _take(on, ctypes.c_int, m)
    s.indices = _take(oi, ctypes.c_int, m)
    s.factors = _take(of, ctypes.c_double, m, 3)
    return s


def get_displacement_tensor(displacements, distances, factors, positions, cell, pbc, cutoff, return_factors,
                            return_distances):
    lib = _load()
    P, C, B = _f(positions), _f(cell, (3, 3)), _b(pbc)
    n = P.shape[0]
    outs = []
    for a, shp in ((displacements, (n, n, 3)), (distances, (n, n)), (factors, (n, n, 3))):
        if a.dtype == np.float64 and a.flags.c_contiguous and a.shape == shp:
            outs.append((a, a))
        else:
            outs.append((a, np.ascontiguousarray(a, dtype=np.float64).reshape(shp)))
    rc = lib.ext_disp(outs[0][1].ctypes.data_as(_D), outs[1][1].ctypes.data_as(_D), outs[2][1].ctypes.data_as(_D),
                      P.ctypes.data_as(_D), n, C.ctypes.data_as(_D), B.ctypes.data_as(ctypes.POINTER(ctypes.c_bool)),
                      ctypes.c_double(cutoff), int(bool(return_factors)), int(bool(return_distances)))
    if rc < 0:
        raise _err()
    for orig, work in outs:
        if orig is not work:
            orig[...] = work


class CellListResult:
    pass


class CellList:
    def __init__(self, positions, indices=None, factors=None, cutoff=None):
        if indices is None:  # internal: wrap an existing handle
            self._h = ctypes.c_void_p(positions)
            return
        lib = _load()
        P = _f(positions)
        I = np.ascontiguousarray(np.asarray(list(indices) if not hasattr(indices, "dtype") else indices), dtype=np.int32)
        F = _f(factors)
        h = lib.ext_cell_list_direct(P.ctypes.data_as(_D), P.shape[0], I.ctypes.data_as(_I), F.ctypes.data_as(_D),
                                     ctypes.c_double(cutoff))
        if not h:
            raise _err()
        self._h = ctypes.c_void_p(h)

    def __del__(self):
        try:
            if self._h:
                _lib.ext_cell_list_free(self._h)
                self._h = None
        except Exception:
            pass

    def _q(self, fn, *args):
        a = [_I(), _I(), _D(), _D(), _D(), _D()]
        m = fn(self._h, *args, *[ctypes.byref(x) for x in a])
        if m < 0:
            raise _err()
        r = CellListResult()
        r.indices = _take(a[0], ctypes.c_int, m).tolist()
        r.indices_original = _take(a[1], ctypes.c_int, m).tolist()
        r.distances = _take(a[2], ctypes.c_double, m).tolist()
        r.distances_squared = _take(a[3], ctypes.c_double, m).tolist()
        r.displacements = _take(a[4], ctypes.c_double, m, 3).tolist()
        r.factors = _take(a[5], ctypes.c_double, m, 3).tolist()
        return r

    def get_neighbours_for_position(self, x, y, z):
        return self._q(_lib.ext_cell_list_query_pos, ctypes.c_double(x), ctypes.c_double(y), ctypes.c_double(z))

    def get_neighbours_for_index(self, i):
        return self._q(_lib.ext_cell_list_query_idx, int(i))


def get_cell_list(positions, cell, pbc, extension, cutoff):
    lib = _load()
    P, C, B = _f(positions), _f(cell, (3, 3)), _b(pbc)
    h = lib.ext_cell_list_new(P.ctypes.data_as(_D), P.shape[0], C.ctypes.data_as(_D),
                              B.ctypes.data_as(ctypes.POINTER(ctypes.c_bool)), ctypes.c_double(extension),
                              ctypes.c_double(cutoff))
    if not h:
        raise _err()
    return CellList(h)


def install():
    """Make `import matid.ext` resolve to the freshly built code.  Call before importing matid.geometry."""
    if "matid.geometry.geometry" in sys.modules and not getattr(sys.modules.get("matid.ext"), "_verif_shim", False):
        raise MachineryError("matid.geometry imported before the rebuilt extension was installed")
    _load()
    mod = types.ModuleType("matid.ext")
    mod._verif_shim = True
    mod.__file__ = build()
    for name in ("extend_system", "get_displacement_tensor", "get_cell_list", "CellList", "CellListResult",
                 "ExtendedSystem"):
        setattr(mod, name, globals()[name])
    sys.modules["matid.ext"] = mod
    import matid  # noqa: E402

    matid.ext = mod
    return mod


if __name__ == "__main__":
    print(build())
