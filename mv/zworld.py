"""Z-world: integer cells and positions for the exact geometry checks (C09, C10, C16, C20).

The code under test receives the configuration rotated by a random proper rotation and scaled by a random
factor; results are mapped back to the integer frame.  `exact` records whether every mapped-back number
landed within 1e-6 of an integer (predictions are integers, so this is not a tolerance question)."""
import itertools

import numpy as np

CELLS = {
    "cubic3": [[3, 0, 0], [0, 3, 0], [0, 0, 3]],
    "ortho235": [[2, 0, 0], [0, 3, 0], [0, 0, 5]],
    "triclinic": [[3, 0, 0], [1, 3, 0], [1, 1, 3]],
    "mangled": [[2, 0, 0], [4, 2, 0], [2, 6, 2]],  # unimodular image of a 2x2x2 cube: long vectors, small heights
    "needle": [[1, 0, 0], [0, 1, 0], [0, 0, 6]],
    "plate": [[5, 0, 0], [1, 4, 0], [0, 0, 1]],
    "sheared": [[3, 0, 0], [5, 2, 0], [4, 3, 2]],
    "lefthanded": [[0, 3, 0], [3, 0, 0], [1, 1, 4]],
    "cubic2": [[2, 0, 0], [0, 2, 0], [0, 0, 2]],
    "hexlike": [[4, 0, 0], [-2, 3, 0], [0, 0, 3]],
    "negdiag": [[2, 0, 0], [0, -3, 0], [0, 0, -4]],  # exactly diagonal cell matrix with negative entries (a cuboid turned by 180 degrees about x)
    "obtuse": [[3, 0, 0], [0, 3, 0], [-3, -3, 3]],  # cubic lattice described with c' = c - a - b: a+b+c is the SHORT diagonal
}
PBCS = [(a, b, c) for a in (False, True) for b in (False, True) for c in (False, True)]


def inside_points(cell, g=1):
    """integer points p (in units 1/g of the integer frame, returned multiplied by g) with 0 <= frac < 1"""
    C = np.array(cell, dtype=np.int64) * g
    inv = np.linalg.inv(C.astype(float))
    lo = np.minimum(0, C.sum(axis=0).min() - 1)
    corners = np.array([[i, j, k] for i in (0, 1) for j in (0, 1) for k in (0, 1)]) @ C
    mn, mx = corners.min(axis=0), corners.max(axis=0)
    pts = []
    for p in itertools.product(*[range(int(mn[k]), int(mx[k]) + 1) for k in range(3)]):
        f = np.array(p) @ inv
        if np.all(f > -1e-9) and np.all(f < 1 - 1e-9):
            pts.append(list(p))
    return pts


def reduce_lattice(cell, pbc):
    """(red, U, K-independent): reduced basis rows (zero rows for non-periodic axes) and unimodular U with
    red = U . Periodic(cell).  Uses ASE's Minkowski reduction on the periodic sub-lattice."""
    from ase.geometry.minkowski_reduction import minkowski_reduce

    C = np.array(cell, dtype=np.int64)
    pbc = np.array(pbc, dtype=bool)
    Cp = C.copy()
    Cp[~pbc] = 0
    U = np.eye(3, dtype=np.int64)
    if pbc.any():
        work = C.astype(float).copy()
        _, op = minkowski_reduce(work, pbc)
        op = np.rint(op).astype(np.int64)
        for i in range(3):
            if not pbc[i]:
                op[i] = 0
                op[:, i] = 0
                op[i, i] = 1
        U = op
    red = U @ Cp
    return red.tolist(), U.tolist()


def safe_k(red, d2max):
    """smallest K with K*height_k >= 2*sqrt(d2max) for every non-zero row (exact integer test as in Lattice!SafeK)"""
    red = np.array(red, dtype=np.int64)
    nz = [i for i in range(3) if red[i].any()]
    if not nz:
        return 0
    for K in range(1, 40):
        ok = True
        if len(nz) == 1:
            ok = K * K * int(red[nz[0]] @ red[nz[0]]) >= 4 * d2max
        elif len(nz) == 2:
            i, j = nz
            cr = np.cross(red[i], red[j])
            ar2 = int(cr @ cr)
            ok = ar2 > 0 and K * K * ar2 >= 4 * d2max * int(red[j] @ red[j]) and K * K * ar2 >= 4 * d2max * int(red[i] @ red[i])
        else:
            dt = int(round(np.linalg.det(red.astype(float))))
            ok = dt != 0
            for (a, b) in ((1, 2), (2, 0), (0, 1)):
                cr = np.cross(red[a], red[b])
                ok = ok and K * K * dt * dt >= 4 * d2max * int(cr @ cr)
        if ok:
            return K
    return None


def rotation(rng):
    from scipy.spatial.transform import Rotation

    return Rotation.random(random_state=int(rng.integers(2 ** 31))).as_matrix()


class Frame:
    """random rigid motion + scale between the integer frame and the frame the code sees"""

    def __init__(self, rng, rotate=True, g=1):
        self.R = rotation(rng) if rotate else np.eye(3)
        self.s = float(rng.uniform(0.6, 2.5)) if rotate else 1.0
        self.g = g
        self.resid = 0.0

    def to_code(self, v):
        """integer-frame vectors (units 1/g) -> cartesian for the code"""
        return (np.asarray(v, dtype=float) / self.g) @ self.R.T * self.s

    def length(self, l2x2):
        """2*l^2 (integer frame units^2 * g^2) -> real length"""
        return self.s * np.sqrt(l2x2 / 2.0) / self.g

    def back_vec(self, v):
        w = (np.asarray(v, dtype=float) / self.s) @ self.R * self.g
        r = np.rint(w)
        self.resid = max(self.resid, float(np.max(np.abs(w - r))) if w.size else 0.0)
        return r.astype(np.int64)

    def back_d2(self, d):
        w = (np.asarray(d, dtype=float) / self.s * self.g) ** 2
        r = np.rint(w)
        self.resid = max(self.resid, float(np.max(np.abs(w - r))) if w.size else 0.0)
        return r.astype(np.int64)

    def back_int(self, f):
        w = np.asarray(f, dtype=float)
        r = np.rint(w)
        self.resid = max(self.resid, float(np.max(np.abs(w - r))) if w.size else 0.0)
        return r.astype(np.int64)

    @property
    def exact(self):
        return bool(self.resid < 1e-6)
