"""Growth module: binding of spec/BestBasis.tla to PeriodicFinder._find_best_basis (the choice of the prototype
cell's basis among the candidate spans).  Inputs are integer span vectors (exact in the specification) handed to the
real function scaled and rotated; TraceBestBasis.tla decides whether the answer is one the selection rule allows.
A disagreement is reported as MODEL-DRIFT by the hosting check (C04): the selection rule is design knowledge about a
heuristic, not one of the listed property clauses."""
import itertools
import json
import os

import numpy as np

from . import tlc
from .common import MachineryError, rng_for, scratch


def _rotation(rng):
    q = rng.normal(size=4)
    q /= np.linalg.norm(q)
    a, b, c, d = q
    return np.array([[a * a + b * b - c * c - d * d, 2 * (b * c - a * d), 2 * (b * d + a * c)],
                     [2 * (b * c + a * d), a * a - b * b + c * c - d * d, 2 * (c * d - a * b)],
                     [2 * (b * d - a * c), 2 * (c * d + a * b), a * a - b * b - c * c + d * d]])


UNIVERSE = [v for v in itertools.product(range(-2, 3), repeat=3) if any(v)]
BASES = [((1, 0, 0), (0, 1, 0), (0, 0, 1)), ((0, 1, 1), (1, 0, 1), (1, 1, 0)), ((-1, 1, 1), (1, -1, 1), (1, 1, -1)),
         ((1, 0, 0), (0, 1, 0), (0, 0, 2)), ((1, 1, 0), (-1, 1, 0), (0, 0, 1)), ((2, 0, 0), (0, 1, 0), (0, 0, 1)),
         ((1, 0, 0), (1, 1, 0), (0, 0, 1)), ((1, 0, 0), (0, 1, 0), (1, 1, 1))]


def cases(tier, rng):
    n_rand, n_latt = (1500, 1500) if tier == "quick" else (12000, 12000)
    out = []
    # every single span, every pair of a small family (exhaustive part)
    small = [v for v in UNIVERSE if max(abs(x) for x in v) <= 1]
    for a, b in itertools.combinations(small, 2):
        out.append(([a, b], [1, 1]))
    # random sets of 1..5 spans with random metrics
    for _ in range(n_rand):
        n = int(rng.integers(1, 6))
        idx = rng.choice(len(UNIVERSE), size=n, replace=False)
        sp = [UNIVERSE[k] for k in idx]
        u = rng.random()
        if u < 0.4:
            me = [1] * n
        elif u < 0.7:
            me = [int(x) for x in rng.integers(1, 4, size=n)]
        else:
            # what the span graph really produces: counts of matched atoms, large and close to each other
            me = [int(rng.choice([12, 30, 64])) - int(x) for x in rng.integers(0, 6, size=n)]
        out.append((sp, me))
    # lattice-like candidate sets: a basis plus some of its small combinations (what the span graph produces)
    for _ in range(n_latt):
        b = np.array(BASES[int(rng.integers(len(BASES)))])
        combos = [c for c in itertools.product((-1, 0, 1), repeat=3) if any(c)]
        n = int(rng.integers(2, 6))
        pick = rng.choice(len(combos), size=n, replace=False)
        sp = []
        for k in pick:
            v = tuple(int(x) for x in np.array(combos[k]) @ b)
            if any(v) and max(abs(x) for x in v) <= 2 and v not in sp:
                sp.append(v)
        if not sp:
            continue
        u = rng.random()
        me = ([1] * len(sp) if u < 0.4 else [int(x) for x in rng.integers(1, 3, size=len(sp))] if u < 0.6
              else [int(rng.choice([12, 30, 64])) - int(x) for x in rng.integers(0, 6, size=len(sp))])
        out.append((sp, me))
    return out


G_CUBIC = [[1, 0, 0], [0, 1, 0], [0, 0, 1]]
G_HEX = [[2, -1, 0], [-1, 2, 0], [0, 0, 5]]  # hexagonal frame, (c/a)^2 = 5/2 (BestBasis!GHex)
SMALL = [v for v in itertools.product(range(-1, 2), repeat=3) if any(v)]


def hex_cases(tier, rng):
    out = []
    for _ in range(1200 if tier == "quick" else 10000):
        n = int(rng.integers(1, 6))
        idx = rng.choice(len(SMALL), size=n, replace=False)
        sp = [SMALL[k] for k in idx]
        u = rng.random()
        me = ([1] * n if u < 0.5 else [int(x) for x in rng.integers(1, 4, size=n)] if u < 0.7
              else [int(rng.choice([12, 30, 64])) - int(x) for x in rng.integers(0, 6, size=n)])
        out.append((sp, me))
    return out


def execute(finder, sp, me, rng, gram=G_CUBIC):
    scale = float(rng.choice([1.0, 2.0, 2.87, 3.61, 5.43]))
    rot = np.eye(3) if rng.random() < 0.4 else _rotation(rng)
    frame = np.linalg.cholesky(np.array(gram, dtype=float))  # rows = frame vectors with the scalar products `gram`
    spans = scale * (np.array(sp, dtype=float) @ frame @ rot.T)
    rec = {"spans": [list(map(int, v)) for v in sp], "metrics": [int(m) for m in me], "res": [], "error": "", "gram": gram,
           "scale": scale, "rotated": bool(not np.allclose(rot, np.eye(3)))}
    try:
        res = finder._find_best_basis(spans, np.array(me, dtype=int))
        rec["res"] = [int(k) + 1 for k in np.asarray(res).ravel()]
    except Exception as ex:  # noqa: BLE001 - the verdict names it
        rec["error"] = "%s: %s" % (type(ex).__name__, str(ex)[:200])
    return rec


def run(run, tier):
    """Design model + refuted variant + binding.  Returns nothing; registers models, traces and drift on `run`."""
    from matid.core.periodicfinder import PeriodicFinder
    from matid.data import constants

    # quick: Total, Independent, PrimitiveWhenAvailable; the thorough tier adds OrderIndependent (three evaluations of the rule per input)
    mc = tlc.run("BestBasis.tla", "BestBasis_mcq.cfg" if tier == "quick" else "BestBasis_mc.cfg", timeout=1800)
    if mc.violated:
        raise MachineryError("BestBasis.tla design model violates %s" % mc.violated)
    run.add_model(mc, "BestBasis_mc: every list of <= 3 distinct spans of a 21-vector universe (cubic frame), equal metrics "
                      "(Total, Independent, PrimitiveWhenAvailable%s)" % ("" if tier == "quick" else ", OrderIndependent"))
    if tier != "quick":
        mh = tlc.run("BestBasis.tla", "BestBasis_mchex.cfg", timeout=1800)
        if mh.violated:
            raise MachineryError("BestBasis.tla (hexagonal frame) violates %s" % mh.violated)
        run.add_model(mh, "BestBasis_mchex: every list of <= 3 distinct spans of the 17 small vectors in a hexagonal frame")
        mm = tlc.run("BestBasis.tla", "BestBasis_met.cfg", timeout=1800)
        if mm.violated:
            raise MachineryError("BestBasis.tla (metrics 1..2) violates %s" % mm.violated)
        run.add_model(mm, "BestBasis_met: same with every metric assignment from {1,2} (Total, Independent, OrderIndependent)")
    guard = tlc.run("BestBasis.tla", "BestBasis_anymetric.cfg", timeout=1200, must_pass=False)
    run.notes["BestBasis_anymetric_refuted"] = guard.violated
    if guard.violated != "PrimitiveWhenAvailable":
        raise MachineryError("vacuity guard: BestBasis_anymetric.cfg should refute PrimitiveWhenAvailable, TLC says %s"
                             % (guard.violated or guard.error))
    if abs(constants.ANGLE_TOL - 20) > 1e-9 or abs(constants.CELL_SIZE_TOL - 0.25) > 1e-12:
        run.model_drift("BestBasis.tla hard-codes ANGLE_TOL = 20 and CELL_SIZE_TOL = 0.25; the live constants are %r, %r - binding skipped"
                        % (constants.ANGLE_TOL, constants.CELL_SIZE_TOL))
        return
    rng = rng_for("bestbasis", tier)
    finder = PeriodicFinder()
    # spec -> code: every initial state of the design model, written out by TLC itself (BestBasisEmit.tla)
    emitted = []
    for cfg in (("BestBasisEmit3.cfg", "BestBasisEmit3hex.cfg") if tier == "quick" else ("BestBasisEmit3.cfg", "BestBasisEmit3hex.cfg", "BestBasisEmit3m.cfg")):
        out = os.path.join(scratch("bestbasis"), cfg + ".ndjson")
        em = tlc.run("BestBasisEmit.tla", cfg, env={"OUT_FILE": out}, workers=1, timeout=1200)
        n = em.printed("EMITTED")
        lines = [json.loads(l) for l in open(out)]
        os.remove(out)
        if not n or n[0][0] != len(lines) or not lines:
            raise MachineryError("BestBasisEmit %s: %s states announced, %d written" % (cfg, n, len(lines)))
        emitted += [(c["spans"], c["metrics"], c["gram"]) for c in lines]
    run.notes["bestbasis_model_states_replayed"] = len(emitted)
    recs = [execute(finder, sp, me, rng, g) for sp, me, g in emitted]
    recs += [execute(finder, sp, me, rng) for sp, me in cases(tier, rng)]
    recs += [execute(finder, sp, me, rng, G_HEX) for sp, me in hex_cases(tier, rng)]
    prefix = os.path.join(scratch("bestbasis"), "bb")
    total, fails = None, []
    for g in (G_CUBIC, G_HEX):  # one batch per lattice frame (TraceBestBasis takes the frame from the first record)
        part = [r for r in recs if r["gram"] == g]
        t, f = tlc.run_chunks("TraceBestBasis.tla", "TraceBestBasis.cfg", part, prefix, chunk=4000, timeout=1200, also=("AMBIG",))
        fails += f
        if total is None:
            total = t
        else:
            total.generated += t.generated
            total.distinct += t.distinct
            total.wall += t.wall
            for k, v in t.also.items():
                total.also[k] = total.also.get(k, 0) + v
    run.notes["bestbasis_calls_hexagonal_frame"] = sum(1 for r in recs if r["gram"] == G_HEX)
    run.add_model(total, "TraceBestBasis: %d real _find_best_basis calls" % len(recs))
    run.traces(len(recs))
    run.notes["bestbasis_calls"] = len(recs)
    run.notes["bestbasis_ambiguous_inputs"] = total.also.get("AMBIG", 0)
    run.notes["bestbasis_dims"] = {str(d): sum(1 for r in recs if len(r["res"]) == d) for d in (1, 2, 3)}
    seen = set()
    for rec, rest in fails:
        clause = str(rest[0]) if rest else "?"
        if clause in seen:
            continue
        seen.add(clause)
        run.model_drift("BestBasis.tla clause %s: _find_best_basis(spans=%s (frame %s) x %.2f%s, metrics=%s) returned %s"
                        % (clause, rec["spans"], "cubic" if rec["gram"] == G_CUBIC else "hexagonal", rec["scale"], " rotated" if rec["rotated"] else "", rec["metrics"],
                           [k - 1 for k in rec["res"]] if not rec["error"] else rec["error"]))
    run.notes["bestbasis_disagreements"] = len(fails)
