"""Extracts the cache / reset structure of SymmetryAnalyzer from the live source (AST) as constants of
Analyzer.tla: which attributes each public method may assign (transitively through self.method() calls),
which ones set_system()/reset() re-initialise."""
import ast
import json
import os

from .common import REPO


def extract(path=None):
    path = path or os.path.join(REPO, "matid", "symmetry", "symmetryanalyzer.py")
    tree = ast.parse(open(path).read())
    cls = next(n for n in tree.body if isinstance(n, ast.ClassDef) and n.name == "SymmetryAnalyzer")
    assigns, calls = {}, {}
    for fn in cls.body:
        if not isinstance(fn, ast.FunctionDef):
            continue
        a, c = set(), set()
        for node in ast.walk(fn):
            targets = []
            if isinstance(node, ast.Assign):
                targets = node.targets
            elif isinstance(node, (ast.AugAssign, ast.AnnAssign)):
                targets = [node.target]
            for t in targets:
                for sub in ast.walk(t):
                    if isinstance(sub, ast.Attribute) and isinstance(sub.value, ast.Name) and sub.value.id == "self" and isinstance(sub.ctx, ast.Store):
                        a.add(sub.attr)
            if isinstance(node, ast.Call) and isinstance(node.func, ast.Attribute) and isinstance(node.func.value, ast.Name) and node.func.value.id == "self":
                c.add(node.func.attr)
        for dec in fn.decorator_list:
            txt = ast.unparse(dec)
            if "cache" in txt:  # functools.lru_cache / cache / cached_property keep their value across set_system
                a.add("@%s:%s" % (txt.split("(")[0], fn.name))
        assigns[fn.name], calls[fn.name] = a, c

    def closure(m, seen=None):
        seen = seen or set()
        if m in seen or m not in assigns:
            return set()
        seen.add(m)
        out = set(assigns[m])
        for c in calls[m]:
            out |= closure(c, seen)
        return out

    trans = {m: closure(m) for m in assigns}
    reinit = trans.get("set_system", set())
    public = sorted(m for m in assigns if not m.startswith("_") and m not in ("set_system", "reset"))
    fields = sorted(set().union(*trans.values()))
    return {"fields": fields, "reinit": sorted(reinit),
            "methods": [{"name": m, "assigns": sorted(trans[m] - assigns.get("__init__", set()) if False else trans[m])} for m in public]}


def export(path):
    m = extract()
    json.dump(m, open(path, "w"))
    return m
