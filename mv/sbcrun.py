"""Run SBC.get_clusters on one generated structure and project everything C01/C02/C03/C13 talk about
to integers (public API for the verdict part, tracer events for the model-binding part)."""
import numpy as np

from . import structures, tracer
from .common import rng_for

AMBIG = 1e-6


def own_radii(preset_or_array, numbers):
    """The harness' own resolution of the radii (independent of matid.geometry.get_radii)."""
    from ase.data import covalent_radii
    from ase.data.vdw_alvarez import vdw_radii

    if not isinstance(preset_or_array, str):
        return np.asarray(preset_or_array, dtype=float)
    if preset_or_array == "covalent":
        return covalent_radii[numbers]
    if preset_or_array == "vdw":
        return vdw_radii[numbers]
    return np.array([vdw_radii[z] if not np.isnan(vdw_radii[z]) else covalent_radii[z] for z in numbers])


def _mic_radii_matrix(atoms, radii):
    """minimum-image distances minus radii (ASE, Minkowski reduced) for the whole structure"""
    a = atoms.copy()
    a.set_constraint()
    d = a.get_all_distances(mic=bool(a.get_pbc().any()))
    return d - radii[:, None] - radii[None, :]


def bonding_graph(atoms, radii, thr):
    """Independent bonding graph: ASE minimum-image distances (Minkowski reduced) minus radii <= thr.
    Returns (certain adjacency, ambiguous adjacency) as lists of sorted neighbour lists (1-based)."""
    n = len(atoms)
    a = atoms.copy()
    cell = a.cell[:]
    pbc = a.get_pbc()
    # ASE needs a non-degenerate cell only along periodic directions
    d = a.get_all_distances(mic=bool(pbc.any()))
    g = d - radii[:, None] - radii[None, :]
    np.fill_diagonal(g, np.inf)
    cert = g <= thr - AMBIG
    amb = (np.abs(g - thr) < AMBIG)
    return ([sorted((np.flatnonzero(cert[i]) + 1).tolist()) for i in range(n)],
            [sorted((np.flatnonzero(amb[i]) + 1).tolist()) for i in range(n)], int(amb.sum() // 2))


def _bind(rec, call, thr, merge_radius, merge_threshold):
    """events + the code's own Bond / Near relations (1-based) for the model-binding replay (TraceSBC)"""
    from fractions import Fraction

    rec["missing_hooks"] = call["missing_hooks"]
    ev = []
    for e in call["events"]:
        e = dict(e)
        if e["ev"] == "seed":
            e["s"] += 1
            e["mask"] = [i + 1 for i in e["mask"]]
            e["grain"] = [i + 1 for i in e["grain"]]
        else:
            e["clusters"] = [dict(c, idx=[i + 1 for i in c["idx"]]) for c in e["clusters"]]
        ev.append(e)
    rec["events"] = ev
    fr = Fraction(str(merge_threshold))
    rec["merge_num"], rec["merge_den"] = fr.numerator, fr.denominator
    D = call.get("dist_radii")
    if D is None:
        rec["replay_skip"] = "distance matrix not captured"
        return
    n = D.shape[0]
    g = D.copy()
    np.fill_diagonal(g, np.inf)
    if np.any(np.abs(g - thr) < 1e-9) or np.any(np.abs(g - merge_radius) < 1e-9):
        rec["replay_skip"] = "a pair within 1e-9 of bond_threshold / merge_radius"
        return
    rec["bondC"] = [(np.flatnonzero(g[i] <= thr) + 1).tolist() for i in range(n)]
    rec["nearC"] = [(np.flatnonzero(g[i] < merge_radius) + 1).tolist() for i in range(n)]


def fingerprint(atoms):
    return (atoms.get_positions().copy(), atoms.get_atomic_numbers().copy(), atoms.get_cell()[:].copy(),
            atoms.get_pbc().copy())


def same(fp, atoms):
    p, z, c, b = fingerprint(atoms)
    return bool(np.array_equal(fp[0], p) and np.array_equal(fp[1], z) and np.array_equal(fp[2], c) and np.array_equal(fp[3], b))


def dim_enc(d):
    return -1 if d is None else int(d)


def execute(job):
    """job = (kind, desc, params, options) -> record (JSON-able).  options: dims (C13), rerun (C01)."""
    import matid.geometry
    from matid.clustering import SBC

    kind, desc, params, opt = job
    atoms, extra = structures.build(kind, desc)
    rng = rng_for("sbcrun", kind, sorted(desc.items()), sorted((k, str(v)) for k, v in params.items()))
    perm = np.arange(len(atoms))
    if opt.get("rigid"):
        atoms, perm = structures.rigid(atoms, rng, permute=opt.get("permute", True))
    numbers = atoms.get_atomic_numbers()
    p = dict(params)
    radii_spec = p.pop("radii", "covalent")
    if radii_spec == "custom":
        base = own_radii("covalent", numbers)
        # per-atom radii that differ *within* an element (a per-species summary of them would be wrong)
        radii_arg = base * float(rng.uniform(0.9, 1.15)) + rng.choice([0.0, 0.0, 0.2], len(numbers))
        if extra.get("lifted"):
            radii_arg = base.copy()
            radii_arg[np.argsort(perm)[np.array(extra["lifted"])] if opt.get("rigid") else np.array(extra["lifted"])] += 0.2
    elif radii_spec == "custom_wide":
        # strongly different radii inside one element: any confusion about WHICH atom a radius belongs to changes the bonding
        radii_arg = own_radii("covalent", numbers) * rng.choice([0.8, 1.0, 1.2], len(numbers))
    else:
        radii_arg = radii_spec
    thr = p.get("bond_threshold", 0.65)
    rec = {"kind": kind, "desc": desc, "params": {k: (v if not isinstance(v, np.ndarray) else "array") for k, v in params.items()},
           "n": len(atoms), "z": [int(z) for z in numbers], "pbc": [bool(x) for x in atoms.get_pbc()]}
    cell = atoms.get_cell()[:]
    rec["zero_periodic_vector"] = bool(any(atoms.get_pbc()[i] and not cell[i].any() for i in range(3)))
    rr = own_radii(radii_arg, numbers)
    if not np.all(np.isfinite(rr)):
        rec["skip"] = "radii preset undefined for an element of the structure"
        return rec
    fp = fingerprint(atoms)
    seed = int(p.pop("seed", 7))
    with tracer.sbc_trace() as calls:
        try:
            sbc_obj = SBC()
            if opt.get("shared_history"):
                # the clustering object was used before on the same structure with other radii / thresholds
                other = "vdw_covalent" if radii_spec != "vdw_covalent" else "covalent"
                try:
                    sbc_obj.get_clusters(atoms, radii=other, seed=seed + 1, bond_threshold=thr + 0.35)
                except Exception:
                    pass
                del calls[:]
            clusters = sbc_obj.get_clusters(atoms, radii=radii_arg if isinstance(radii_arg, str) else radii_arg.copy(),
                                          seed=seed, **p)
            rec["error"] = None
        except Exception as e:  # judged by FailureOnlyValueError...
            clusters = None
            rec["error"] = type(e).__name__
            rec["error_msg"] = str(e)[:200]
    rec["untouched"] = same(fp, atoms)
    if calls:
        _bind(rec, calls[0], thr, p.get("merge_radius", 1), p.get("merge_threshold", 0.5))
    if clusters is None:
        rec["final"] = []
        return rec
    # ---- public API observations
    final = []
    for c in clusters:
        try:
            pc = c.get_cell()
            cellpbc = -1 if pc is None else int(np.sum(pc.get_pbc()))
            ncell = -1 if pc is None else len(pc)
        except Exception:
            cellpbc, ncell = -2, -2
        final.append({"idx": [int(i) + 1 for i in c.indices], "sp": sorted(int(z) for z in c.species),
                      "cellpbc": cellpbc, "ncell": ncell})
    rec["final"] = final
    # wrapped copy the code works on is equivalent for minimum-image distances
    try:
        adjC, adjM, namb = bonding_graph(atoms, rr, thr)
        rec["adjC"], rec["adjM"], rec["n_ambiguous_bonds"] = adjC, adjM, namb
    except Exception as e:
        rec["skip"] = "independent bonding graph unavailable: %s" % e
        return rec
    if opt.get("rerun", True):
        try:
            again = SBC().get_clusters(atoms, radii=radii_arg if isinstance(radii_arg, str) else radii_arg.copy(),
                                       seed=seed, **p)
            rec["rerun"] = [[int(i) + 1 for i in c.indices] for c in again]
        except Exception as e:
            rec["rerun"] = [[-1]]
            rec["rerun_error"] = type(e).__name__
    if opt.get("history"):
        # the same SBC object used before with other radii / thresholds: the result may depend on
        # (structure, parameters, seed) only
        try:
            shared = SBC()
            other = "vdw_covalent" if radii_spec != "vdw_covalent" else "covalent"
            shared.get_clusters(atoms, radii=other, seed=seed + 1, bond_threshold=thr + 0.35)
            hist = shared.get_clusters(atoms, radii=radii_arg if isinstance(radii_arg, str) else radii_arg.copy(),
                                       seed=seed, **p)
            rec["rerun_history"] = [[int(i) + 1 for i in c.indices] for c in hist]
            rec["history_run"] = True
        except Exception as e:
            rec["rerun_history"] = [[-1]]
            rec["rerun_history_error"] = type(e).__name__
    if opt.get("dims"):
        dims = []
        for c in clusters:
            d = {"n": len(c.indices)}
            spied = {}
            orig_gd = matid.geometry.get_dimensionality

            def spy(system, cluster_threshold=None, dist_matrix_radii_mic_1x=None, return_clusters=False, radii="covalent", **kw):
                spied.update(pos=np.array(system.get_positions()), thr=cluster_threshold, radii=radii if isinstance(radii, str) else np.array(radii, dtype=float),
                             D=None if dist_matrix_radii_mic_1x is None else np.array(dist_matrix_radii_mic_1x, dtype=float))
                return orig_gd(system, cluster_threshold, dist_matrix_radii_mic_1x=dist_matrix_radii_mic_1x, return_clusters=return_clusters,
                               radii=radii, **kw)

            matid.geometry.get_dimensionality = spy
            try:
                d["shortcut"] = dim_enc(c.get_dimensionality())
            except Exception as e:
                d["shortcut"] = -9
                d["shortcut_error"] = "%s: %s" % (type(e).__name__, str(e)[:120])
            finally:
                matid.geometry.get_dimensionality = orig_gd
            # what the shortcut handed to get_dimensionality: each atom must come with ITS radius, ITS row of the distance table
            # and the clustering threshold (order-agnostic: the atoms are identified by their positions)
            d["args_ok"], d["args_why"] = True, ""
            if spied:
                try:
                    from ase.geometry import find_mic

                    allpos = atoms.get_positions()
                    who, worst = [], 0.0
                    for p_ in spied["pos"]:
                        dv, dl = find_mic(allpos - p_, atoms.get_cell(), atoms.get_pbc())
                        who.append(int(np.argmin(dl)))
                        worst = max(worst, float(dl.min()))
                    if worst > 1e-6:
                        d["args_why"] = "args not checked: evaluated atoms not found among the input's atoms"
                    elif sorted(who) != sorted(int(i) for i in c.indices):
                        d["args_ok"], d["args_why"] = False, "atoms evaluated are not the cluster's atoms"
                    elif spied["thr"] is None or abs(float(spied["thr"]) - thr) > 1e-12:
                        d["args_ok"], d["args_why"] = False, "threshold %r instead of %r" % (spied["thr"], thr)
                    else:
                        rad = spied["radii"]
                        if isinstance(rad, str):
                            rused = own_radii(rad, numbers[np.array(who)])
                        else:
                            rused = np.asarray(rad, dtype=float)
                        if len(rused) != len(who) or not np.allclose(rused, rr[np.array(who)], atol=1e-9):
                            d["args_ok"], d["args_why"] = False, "radii handed over do not belong to the atoms they are attached to"
                        elif spied["D"] is not None:
                            Dref = _mic_radii_matrix(atoms, rr)[np.ix_(who, who)]
                            if np.asarray(spied["D"]).shape != Dref.shape or not np.allclose(np.asarray(spied["D"]), Dref, atol=1e-6):
                                d["args_ok"], d["args_why"] = False, "distance table handed over does not belong to the atoms in their order"
                except Exception as e:
                    d["args_why"] = "args not checked: %s" % type(e).__name__
            sub = c.get_atoms()
            rsub = "covalent" if (isinstance(radii_arg, str) and radii_arg == "covalent") else rr[np.array(c.indices, dtype=int)]
            try:
                d["direct"] = dim_enc(matid.geometry.get_dimensionality(sub, thr, radii=rsub))
            except Exception as e:
                d["direct"] = -8
                d["direct_error"] = "%s: %s" % (type(e).__name__, str(e)[:120])
            try:
                d["again"] = dim_enc(c.get_dimensionality())
            except Exception:
                d["again"] = -9
            dims.append(d)
        rec["dims"] = dims
    rec["perm"] = [int(x) for x in perm]
    rec["extra"] = extra
    return rec
