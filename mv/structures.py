"""Input families for the clustering / classification / dimensionality properties (C01, C02, C03, C09, C13, C17-C19).

Every generator separates a categorical descriptor (a small dict, seed independent) from the random part
(drawn from rng_for(descriptor)).  Returned: (ase.Atoms, descriptor, extra) where extra may carry
construction knowledge (expected partition ...).
"""
import numpy as np

from .common import rng_for

FCC = {"Al": 4.05, "Cu": 3.61, "Ni": 3.52, "Ag": 4.09, "Au": 4.08, "Pd": 3.89, "Pt": 3.92, "Ir": 3.84, "Rh": 3.80,
       "Pb": 4.95}
BCC = {"Fe": 2.87, "Cr": 2.88, "Mo": 3.15, "W": 3.16, "V": 3.03, "Nb": 3.30, "Ta": 3.30}
PBCS = [(a, b, c) for a in (False, True) for b in (False, True) for c in (False, True)]


def rotation(rng):
    from scipy.spatial.transform import Rotation

    return Rotation.random(random_state=int(rng.integers(2 ** 31))).as_matrix()


def snap_to_axes(R, c2_only=False):
    """the proper rotation that maps the axes onto (+/-) axes and is closest to R: every eighth orientation is one of the 24
    axis-aligned ones (cell vectors exactly along negative cartesian axes), another eighth one of the three two-fold rotations
    about x, y, z (a diagonal cell matrix stays exactly diagonal, with two negative entries)"""
    import itertools

    best, bestv = None, -1e9
    for perm in ([(0, 1, 2)] if c2_only else itertools.permutations(range(3))):
        for signs in itertools.product((1, -1), repeat=3):
            P = np.zeros((3, 3))
            for i in range(3):
                P[i, perm[i]] = signs[i]
            if np.linalg.det(P) < 0 or (c2_only and signs == (1, 1, 1)):
                continue
            v = float(np.sum(P * R))
            if v > bestv:
                best, bestv = P, v
    return best


def decorate(a, force=False):
    """Every second structure (decided by a hash of its coordinates, no random numbers consumed) carries what users' Atoms
    objects commonly carry: a FixAtoms constraint on some atoms, tags, initial charges, momenta.  None of it is part of the
    structure the properties speak about, so no result may depend on it.  Applied last: ASE's own set_positions honours
    constraints, and the harness must not be affected by them."""
    from ase.constraints import FixAtoms

    h = int(abs(float(np.sum(a.positions)) * 1e3)) % 4
    if force:
        h = 2 + h % 2
    if h < 2 or len(a) == 0:
        return a
    a.set_constraint(FixAtoms(indices=list(range(h % 2, len(a), 2))))
    a.set_tags(np.arange(len(a)) % 3)
    a.set_initial_charges(0.1 * (np.arange(len(a)) % 2))
    a.set_momenta(np.ones((len(a), 3)))
    return a


def lefthand(a):
    """Every third structure with a non-singular cell (decided by a hash of its coordinates) is described with its first two
    cell vectors - and their pbc flags - interchanged: the same atoms, the same lattice, the same periodic directions, but a
    left-handed basis (determinant < 0).  No property speaks about the handedness of the basis."""
    from ase import Atoms

    cell = a.cell[:]
    if abs(np.linalg.det(cell)) < 1e-9 or int(abs(float(np.sum(a.positions)) * 1e3) // 4) % 3:
        return a
    pbc = a.get_pbc()
    b = Atoms(numbers=a.numbers, positions=a.positions, cell=cell[[1, 0, 2]], pbc=pbc[[1, 0, 2]])
    return b


def rigid(atoms, rng, rotate=True, translate=True, permute=True):
    a = atoms.copy()
    if rotate:
        R = rotation(rng)
        hR = int(abs(R[0, 0]) * 1e6) % 8
        if hR == 0:
            R = snap_to_axes(R)
        elif hR == 4:
            R = snap_to_axes(R, c2_only=True)
        a.set_cell(a.cell[:] @ R.T, scale_atoms=True)
    if translate:
        a.translate(rng.uniform(-3, 3, 3))
        cell = a.cell[:]
        pbc = a.get_pbc()
        h = int(abs(float(np.sum(atoms.positions)) * 1e3) // 12) % 3
        if abs(np.linalg.det(cell)) > 1e-9 and h:
            # two more re-descriptions of the same structure (decided by a hash of the coordinates): (h = 1) the atoms pushed far along
            # the NON-periodic cell vectors - where an atom sits along a non-periodic direction is arbitrary, ASE builders even
            # produce zero-length vectors there; (h = 2) shifted by about half a cell along the periodic vectors and wrapped, so that
            # slabs and sheets continue through the cell boundary
            if h == 1 and not pbc.all():
                for i in range(3):
                    if not pbc[i]:
                        a.translate(float(rng.choice([-1, 1])) * float(rng.uniform(0.4, 1.3)) * cell[i])
            elif h == 2 and pbc.any():
                for i in range(3):
                    if pbc[i]:
                        a.translate(float(rng.uniform(0.3, 0.7)) * cell[i])
                a.wrap()
    perm = np.arange(len(a))
    if permute:
        perm = rng.permutation(len(a))
        a = a[perm]
    return decorate(lefthand(a)), perm


def random_cell(rng, kind, L):
    if kind == "orthogonal":
        return np.diag(rng.uniform(0.7, 1.4, 3) * L)
    if kind == "skewed":
        c = np.diag(rng.uniform(0.8, 1.3, 3) * L)
        c += rng.uniform(-0.35, 0.35, (3, 3)) * L
        return c
    if kind == "sheared":  # unimodular mangling of an orthogonal cell: long vectors, same lattice
        c = np.diag(rng.uniform(0.8, 1.3, 3) * L)
        P = np.array([[1, 0, 0], [int(rng.integers(-2, 3)), 1, 0], [int(rng.integers(-2, 3)), int(rng.integers(-2, 3)), 1]])
        return P @ c
    raise ValueError(kind)


def gas(desc):
    """random atoms in a box"""
    from ase import Atoms

    rng = rng_for("gas", sorted(desc.items()))
    n = desc["n"]
    cell = random_cell(rng, desc["cell"], desc.get("L", 8.0))
    pos = rng.uniform(0, 1, (n, 3)) @ cell
    zs = rng.choice(desc.get("species", [6, 8, 14, 29]), n)
    a = Atoms(numbers=zs, positions=pos, cell=None if desc.get("nocell") else cell, pbc=desc["pbc"])
    if desc.get("unwrapped"):
        a.positions += rng.integers(-2, 3, (n, 3)) * np.array(desc["pbc"])[None, :] @ cell
    return a


def _bulk(el, structure, a, cubic=True):
    from ase.build import bulk

    return bulk(el, structure, a=a, cubic=cubic)


def crystal_block(desc):
    """(defective / rattled / substituted) crystal supercell; pbc pattern arbitrary (finite crystallites when False)"""
    rng = rng_for("block", sorted(desc.items()))
    el = desc["el"]
    if el in FCC:
        u = _bulk(el, "fcc", FCC[el])
    else:
        u = _bulk(el, "bcc", BCC[el])
    a = u.repeat(desc["reps"])
    n = len(a)
    if desc.get("vacancies"):
        keep = np.ones(n, bool)
        keep[rng.choice(n, desc["vacancies"], replace=False)] = False
        a = a[keep]
    if desc.get("substitutions"):
        idx = rng.choice(len(a), desc["substitutions"], replace=False)
        nums = a.numbers.copy()
        nums[idx] = desc.get("sub_z", 8)
        a.numbers = nums
    pbc = desc["pbc"]
    a.set_pbc(pbc)
    if not all(pbc):
        # vacuum along non-periodic directions
        cell = a.cell[:].copy()
        for i in range(3):
            if not pbc[i]:
                cell[i] *= 1.0 + desc.get("vacuum_factor", 1.5)
        a.set_cell(cell, scale_atoms=False)
        a.center()
    if desc.get("noise"):
        a.positions += rng.normal(scale=desc["noise"] / np.sqrt(3), size=a.positions.shape).clip(-desc["noise"], desc["noise"])
    return a


def slab(el, facet, layers, size, vacuum, a0=None):
    from ase.build import bcc100, bcc110, fcc100, fcc110, fcc111

    fn = {"fcc100": fcc100, "fcc110": fcc110, "fcc111": fcc111, "bcc100": bcc100, "bcc110": bcc110}[facet]
    a0 = a0 or (FCC.get(el) or BCC.get(el))
    return fn(el, size=(size, size, layers), a=a0, vacuum=vacuum)


def slab_with_adsorbates(desc):
    from ase import Atom

    rng = rng_for("slabads", sorted(desc.items()))
    s = slab(desc["el"], desc["facet"], desc["layers"], desc["size"], desc.get("vacuum", 8.0))
    top = s.positions[:, 2].max()
    ads = []
    for _ in range(desc.get("n_ads", 0)):
        xy = rng.uniform(0, 1, 2) @ s.cell[:2, :2]
        s.append(Atom(desc.get("ads", "O"), position=(xy[0], xy[1], top + desc.get("height", 1.6))))
        ads.append(len(s) - 1)
    s.set_pbc(desc.get("pbc", (True, True, True)))
    if desc.get("noise"):
        s.rattle(desc["noise"] / np.sqrt(3), seed=int(rng.integers(2 ** 31)))
    return s, ads


def stack(desc):
    """two commensurate slabs of different elements on top of each other; returns atoms and the size of the lower slab"""
    rng = rng_for("stack", sorted(desc.items()))
    A, B, facet = desc["A"], desc["B"], desc["facet"]
    lat = FCC if A in FCC else BCC
    a0 = lat[A]
    # one slab of la+lb layers in A's lattice (B strained to it); the top lb layers become B, so the stacking
    # registry continues across the interface for every facet
    from ase.data import atomic_numbers

    whole = slab(A, facet, desc["la"] + desc["lb"], desc["size"], 0.0, a0)
    tags = whole.get_tags()  # 1 = top layer
    top_mask = tags <= desc["lb"]
    order = np.concatenate([np.flatnonzero(~top_mask), np.flatnonzero(top_mask)])
    nums = whole.numbers.copy()
    nums[top_mask] = atomic_numbers[B]
    whole.numbers = nums
    s = whole[order]
    bottom = s[: int((~top_mask).sum())]
    d_int = {"fcc100": a0 / 2, "fcc111": a0 / np.sqrt(3), "bcc100": a0 / 2, "bcc110": a0 / np.sqrt(2)}[facet]
    c = s.cell[:].copy()
    zmax = s.positions[:, 2].max()
    if desc["pbc_z"]:
        # periodic stacking direction: with vacuum, or as a superlattice (period = stack height + one interlayer distance)
        c[2] = [0, 0, zmax + (d_int if desc.get("superlattice") else 14.0)]
        s.set_cell(c)
        s.set_pbc(True)
    else:
        c[2] = [0, 0, zmax + 1.0]
        s.set_cell(c)
        s.set_pbc([True, True, False])
    if desc.get("noise"):
        s.rattle(desc["noise"] / np.sqrt(3), seed=int(rng.integers(2 ** 31)))
    return s, len(bottom)


def two_crystals(desc):
    """two different crystallites side by side in one (partially periodic) cell"""
    rng = rng_for("two", sorted(desc.items()))
    a = _bulk(desc["A"], "fcc", FCC[desc["A"]]).repeat(desc["reps"])
    b = _bulk(desc["B"], "fcc", FCC[desc["B"]]).repeat(desc["reps"])
    b.translate([a.cell[0, 0] + desc.get("gap", 2.2), 0, 0])
    s = a + b
    cell = np.diag([a.cell[0, 0] + b.cell[0, 0] + 2 * desc.get("gap", 2.2), max(a.cell[1, 1], b.cell[1, 1]),
                    max(a.cell[2, 2], b.cell[2, 2])])
    s.set_cell(cell)
    s.set_pbc(desc["pbc"])
    if desc.get("noise"):
        s.rattle(desc["noise"] / np.sqrt(3), seed=int(rng.integers(2 ** 31)))
    return s, len(a)


def molecules_in_box(desc):
    from ase.build import molecule

    rng = rng_for("mol", sorted(desc.items()))
    names = desc.get("names", ["H2O", "CO2", "CH4", "NH3", "C6H6"])
    L = desc.get("L", 12.0)
    from ase import Atoms

    s = Atoms(cell=random_cell(rng, desc.get("cell", "orthogonal"), L), pbc=desc["pbc"])
    for k in range(desc["n_mol"]):
        m = molecule(str(names[k % len(names)]))
        m.rotate(float(rng.uniform(0, 360)), rng.normal(size=3))
        m.translate(rng.uniform(0, 1, 3) @ s.cell[:])
        s += m
    return s


def degenerate_cell(desc):
    """non-periodic directions with zero cell vectors (allowed), or a zero vector along a periodic one (ValueError)"""
    from ase import Atoms

    rng = rng_for("degen", sorted(desc.items()))
    n = desc["n"]
    cell = np.diag(rng.uniform(4, 8, 3))
    for i in desc["zero_axes"]:
        cell[i] = 0
    pos = rng.uniform(0, 6, (n, 3))
    return Atoms(numbers=rng.choice([6, 8, 29], n), positions=pos, cell=cell, pbc=desc["pbc"])


ROCKSALT = {("Na", "Cl"): 5.64, ("Na", "Br"): 5.97, ("Li", "Br"): 5.50, ("K", "Cl"): 6.29, ("Li", "Cl"): 5.13, ("Mg", "O"): 4.21,
            ("Ca", "O"): 4.81, ("Na", "F"): 4.63, ("Li", "F"): 4.03, ("K", "Br"): 6.60}


def rocksalt_stack(desc):
    """AX slab under BX slab with a shared anion and cation exchanges at the interface (overlapping regions)"""
    from ase.build import bulk

    rng = rng_for("rsstack", sorted(desc.items()))
    a0 = desc["a"]
    bot = bulk(desc["A"] + desc["X"], "rocksalt", a=a0, cubic=True).repeat(desc["reps_a"])
    top = bulk(desc["B"] + desc["X"], "rocksalt", a=a0, cubic=True).repeat(desc["reps_b"])
    top.translate([0, 0, bot.cell[2, 2]])
    s = bot + top
    cell = bot.cell[:].copy()
    cell[2, 2] = bot.cell[2, 2] + top.cell[2, 2] + desc.get("vacuum", 8.0)
    s.set_cell(cell)
    s.set_pbc(desc["pbc"])
    nums = s.numbers.copy()
    za, zb = bot.numbers[0], top.numbers[0]
    ia = [i for i in range(len(bot)) if nums[i] == za]
    ib = [i for i in range(len(bot), len(s)) if nums[i] == zb]
    for _ in range(desc.get("exchanges", 0)):
        nums[int(rng.choice(ia))] = zb
        nums[int(rng.choice(ib))] = za
    s.numbers = nums
    if desc.get("noise"):
        s.rattle(desc["noise"] / np.sqrt(3), seed=int(rng.integers(2 ** 31)))
    return s, len(bot)


def crystallite(desc):
    """finite (or partially periodic) crystallite of a given lattice with noise and vacancies"""
    from ase.build import bulk

    rng = rng_for("crystallite", sorted(desc.items()))
    u = bulk(desc["el"], desc["lattice"], a=desc["a"], cubic=True)
    s = u.repeat(desc["reps"])
    if desc.get("vacancies"):
        keep = np.ones(len(s), bool)
        keep[rng.choice(len(s), desc["vacancies"], replace=False)] = False
        s = s[keep]
    pbc = desc["pbc"]
    cell = s.cell[:].copy()
    for i in range(3):
        if not pbc[i]:
            cell[i] *= 2.0
    s.set_cell(cell)
    s.set_pbc(pbc)
    s.center()
    if desc.get("noise"):
        s.positions += rng.normal(scale=desc["noise"] / np.sqrt(3), size=s.positions.shape)
    return s


def displaced_layer_slab(desc):
    """rocksalt (100) slab whose outermost layer is lifted off: its bonds to the rest are marginal, so radii and
    thresholds decide whether it stays in the cluster"""
    from ase.build import bulk, surface

    a0 = ROCKSALT[(desc["A"], desc["X"])]
    s = surface(bulk(desc["A"] + desc["X"], "rocksalt", a=a0, cubic=True), (1, 0, 0), desc["layers"], vacuum=7.0).repeat((2, 2, 1))
    z = s.positions[:, 2]
    sel = z > z.max() - 0.3 if desc["side"] == "top" else z < z.min() + 0.3
    s.positions[sel, 2] += desc["delta"] * (1 if desc["side"] == "top" else -1)
    s.set_pbc(desc["pbc"])
    return s, [int(i) for i in np.flatnonzero(sel)]


def repo_data(desc):
    import os

    import ase.io

    from .common import REPO

    path = os.path.join(REPO, "tests", "data", desc["file"])
    a = ase.io.read(path)
    if desc.get("pbc") is not None:
        a.set_pbc(desc["pbc"])
    return a


def c01_family(tier):
    """list of (kind, descriptor) covering the C01 quantifier; deterministic"""
    fam = []
    big = tier == "thorough"
    cells = ["orthogonal", "skewed", "sheared"]
    k = 0
    for pbc in PBCS:
        for cell in cells:
            for n in ([1, 2, 5, 12, 30] if not big else [1, 2, 3, 5, 8, 12, 20, 30, 60, 120]):
                k += 1
                if not big and k % 2:
                    continue
                fam.append(("gas", {"n": n, "cell": cell, "pbc": pbc, "L": 6.0 + (n ** (1 / 3.0)) * 1.5,
                                    "unwrapped": bool(k % 3 == 0), "i": k}))
    els = ["Cu", "Al", "Fe", "Au"] if not big else list(FCC)[:6] + list(BCC)[:4]
    for i, el in enumerate(els):
        for j, pbc in enumerate(PBCS):
            if not big and (i + j) % 3:
                continue
            reps = (3, 3, 3) if (i + j) % 2 else (4, 3, 2)
            fam.append(("block", {"el": el, "reps": reps, "pbc": pbc, "vacancies": (i + j) % 4,
                                  "substitutions": (i * 3 + j) % 3, "noise": [0, 0.05, 0.15][(i + j) % 3], "i": i * 8 + j}))
    facets = ["fcc100", "fcc111", "fcc110"]
    for i, el in enumerate(["Cu", "Al", "Pt"] if not big else list(FCC)[:8]):
        for j, facet in enumerate(facets):
            if not big and (i + j) % 2:
                continue
            fam.append(("slabads", {"el": el, "facet": facet, "layers": 3 + (i + j) % 2, "size": 3 + (i % 2), "n_ads": (i + j) % 3,
                                    "height": 1.4 + 0.3 * (j % 3), "pbc": PBCS[7 - (i + j) % 2 * 1][::1], "noise": 0.03 * (j % 2), "i": i * 3 + j}))
    # same-species adatoms lifted off the surface: members of the periodic region whose bonding is marginal
    for i, el in enumerate(["Cu", "Al"] if not big else ["Cu", "Al", "Pt", "Ag", "Ni"]):
        for j, h in enumerate([2.0, 2.4, 2.8]):
            fam.append(("slabads", {"el": el, "facet": facets[(i + j) % 2], "layers": 3, "size": 4, "n_ads": 1 + j % 2, "ads": el,
                                    "height": h, "pbc": (True, True, True), "noise": 0.0, "i": 100 + i * 3 + j}))
    pairs = [("Cu", "Ni"), ("Ag", "Au"), ("Pd", "Pt"), ("Al", "Au")] if not big else [
        (A, B) for A in FCC for B in FCC if A != B and abs(FCC[A] - FCC[B]) / FCC[A] < 0.05]
    for i, (A, B) in enumerate(pairs):
        fam.append(("stack", {"A": A, "B": B, "facet": ["fcc100", "fcc111"][i % 2], "la": 3 + i % 2, "lb": 3 + (i + 1) % 3,
                              "size": 4, "pbc_z": bool(i % 2), "noise": 0.03 * (i % 2), "i": i}))
    for i, (A, B) in enumerate([("Cu", "Al"), ("Au", "Ni"), ("Pt", "Ag")] if not big else [("Cu", "Al"), ("Au", "Ni"), ("Pt", "Ag"), ("Pd", "Pb"), ("Ir", "Al"), ("Rh", "Ag")]):
        for j, pbc in enumerate([(False, True, True), (False, False, False), (True, True, True)]):
            if not big and (i + j) % 2:
                continue
            fam.append(("two", {"A": A, "B": B, "reps": (2, 3, 3) if j else (3, 2, 2), "pbc": pbc, "gap": 2.0 + 0.4 * j, "noise": 0.04 * (i % 2), "i": i * 3 + j}))
    for i, pbc in enumerate(PBCS):
        if not big and i % 2:
            continue
        fam.append(("mol", {"n_mol": 2 + i % 4, "pbc": pbc, "L": 9.0 + i, "cell": cells[i % 3], "i": i}))
    rs = [("Na", "Li", "Br", 5.56), ("K", "Li", "Cl", 6.0), ("Na", "K", "Cl", 5.9), ("Mg", "Ca", "O", 4.5)]
    for i, (A, B, X, a0) in enumerate(rs if not big else rs + [("Na", "Li", "F", 4.3), ("K", "Na", "Br", 6.3)]):
        for j, pbc in enumerate([(True, True, True), (False, True, True), (True, True, False)]):
            if not big and (i + j) % 2:
                continue
            fam.append(("rsstack", {"A": A, "B": B, "X": X, "a": a0, "reps_a": (1 + j % 2, 1 + (i + j) % 2, 1), "reps_b": (1 + j % 2, 1 + (i + j) % 2, 1 + i % 2),
                                    "pbc": pbc, "exchanges": (i + j) % 3, "noise": 0.02 * (i % 2), "i": i * 3 + j}))
    for i, (A, X) in enumerate([("Na", "Cl"), ("Mg", "O"), ("Li", "F")] if not big else [("Na", "Cl"), ("Mg", "O"), ("Li", "F"), ("K", "Br"), ("Na", "F")]):
        for j, delta in enumerate([0.4, 0.6, 0.8]):
            fam.append(("displaced", {"A": A, "X": X, "layers": 2 + (i + j) % 2, "side": ["top", "bottom"][(i + j) % 2], "delta": delta,
                                      "pbc": (True, True, True) if j % 2 == 0 else (True, True, False), "i": i * 3 + j}))
    cr = [("Si", "diamond", 5.43), ("Cu", "fcc", 3.61), ("Fe", "bcc", 2.87), ("C", "diamond", 3.57)]
    for i, (el, lat, a0) in enumerate(cr):
        for j, pbc in enumerate([(False, False, False), (True, False, False), (True, True, False)]):
            if not big and (i + j) % 2 == 0 and j:
                continue
            fam.append(("crystallite", {"el": el, "lattice": lat, "a": a0, "reps": (3, 3, 3) if lat != "diamond" else (2, 2, 3) if not big else (3, 3, 3),
                                        "pbc": pbc, "vacancies": [0, 3, 7][(i + j) % 3], "noise": [0.0, 0.12, 0.25][(i + 2 * j) % 3], "i": i * 3 + j}))
    import os

    from .common import REPO

    dd = os.path.join(REPO, "tests", "data")
    if os.path.isdir(dd):
        files = sorted(f for f in os.listdir(dd) if f.endswith("xyz"))
        for i, f in enumerate(files):
            if not big and f not in ("system-CVC.extxyz", "system-BNPbSeBN.xyz", "cu55.xyz"):
                continue
            fam.append(("repodata", {"file": f, "i": i}))
    for i, (zero, pbc) in enumerate([((2,), (True, True, False)), ((1, 2), (True, False, False)), ((0, 1, 2), (False, False, False)),
                                     ((0,), (False, True, True)), ((2,), (True, True, True)), ((0, 1), (True, False, False))]):
        fam.append(("degen", {"n": 6 + i, "zero_axes": zero, "pbc": pbc, "i": i}))
    return fam


def film_on_slab(desc):
    """A thin two-species film (rock-salt (100) bilayer, listed species by species) over a much larger metal slab, separated
    by a gap: the film is a small cluster whose atom indices sit at the end of a long list (index lists of such clusters are
    not ascending when they come out of a Python set)."""
    from ase import Atoms
    from ase.build import fcc100

    n = desc["n"]
    sub = fcc100(desc["el"], size=(n, n, desc["layers"]), vacuum=0.0)
    L = sub.cell[0, 0]
    m = desc["m"]  # film atoms per edge (m x m per layer), nearest-neighbour distance L / m
    d = L / m
    pos, num = [], []
    zs = (desc["A"], desc["X"])
    from ase.data import atomic_numbers

    for layer in range(2):
        for i in range(m):
            for j in range(m):
                pos.append([i * d, j * d, layer * d])
                num.append(atomic_numbers[zs[(i + j + layer) % 2]])
    order = np.argsort(num, kind="stable")
    film = Atoms(numbers=np.array(num)[order], positions=np.array(pos)[order])
    top = sub.positions[:, 2].max()
    film.translate([0.3, 0.2, top + desc["gap"]])
    s = sub + film
    cell = sub.cell[:].copy()
    cell[2, 2] = top + desc["gap"] + d + 9.0
    s.set_cell(cell)
    s.set_pbc(desc["pbc"])
    return s, len(sub)


def build(kind, desc):
    """-> (atoms, extra)"""
    if kind == "film":
        a, nb = film_on_slab(desc)
        return a, {"n_bottom": nb}
    if kind == "gas":
        return gas(desc), {}
    if kind == "block":
        return crystal_block(desc), {}
    if kind == "slabads":
        a, ads = slab_with_adsorbates(desc)
        return a, {"adsorbates": ads}
    if kind == "stack":
        a, nb = stack(desc)
        return a, {"n_bottom": nb}
    if kind == "two":
        a, na = two_crystals(desc)
        return a, {"n_first": na}
    if kind == "mol":
        return molecules_in_box(desc), {}
    if kind == "degen":
        return degenerate_cell(desc), {}
    if kind == "rsstack":
        a, nb = rocksalt_stack(desc)
        return a, {"n_bottom": nb}
    if kind == "crystallite":
        return crystallite(desc), {}
    if kind == "displaced":
        a, lifted = displaced_layer_slab(desc)
        return a, {"lifted": lifted}
    if kind == "repodata":
        return repo_data(desc), {}
    raise ValueError(kind)
