"""GroundState layer shared by C05 / C06: the normalizer selection of _find_wyckoff_ground_state is driven
through every occupation of a bounded scope (forcing every origin choice, which spglib alone would not
produce) and judged by TLC against GroundState.tla."""
import itertools
import os

import numpy as np

from .. import export_data, tlc
from ..common import MachineryError, dump_ndjson, pmap

SPECIES = [1, 8, 29]


def _call(an, sg, orbits, mults):
    from ase import Atoms
    from matid.utils.exceptions import MatIDError

    letters, numbers = [], []
    for (l, z) in orbits:
        letters += [l] * mults[l]
        numbers += [z] * mults[l]
    n = len(letters)
    sysm = Atoms(numbers=numbers, scaled_positions=np.random.default_rng(n).uniform(0, 1, (n, 3)), cell=np.eye(3) * 5, pbc=True)
    try:
        _, new_letters = an._find_wyckoff_ground_state(sg, np.array(letters), sysm)
    except (MatIDError, KeyError) as e:
        return {"err": type(e).__name__, "occ": [], "det": 0}
    occ = {}
    for l, z in zip(new_letters, numbers):
        occ[(str(l), int(z))] = occ.get((str(l), int(z)), 0) + 1
    T = an._best_transform["transformation"]
    return {"err": "", "occ": [[k[0], k[1], v] for k, v in sorted(occ.items())], "det": int(round(np.linalg.det(np.asarray(T)[:3, :3])))}


def work(job):
    from matid.data.symmetry_data import CHIRALITY_PRESERVING_EUCLIDEAN_NORMALIZERS as N
    from matid.data.symmetry_data import WYCKOFF_SETS as W
    from matid.symmetry import SymmetryAnalyzer

    sg, max_orbits, nspecies, cap = job
    an = SymmetryAnalyzer.__new__(SymmetryAnalyzer)
    # get_is_chiral (used by the repaired selection) needs a hall number: provide the dataset attribute it reads
    import spglib

    hall = export_data.hall_numbers()[sg]

    class DS:
        hall_number = hall
        number = sg

    an._symmetry_dataset = DS()
    ws = W[sg]
    ncent = 1 + len(np.array(ws.get("translations", [])).reshape(-1, 3))
    letters = sorted(k for k in ws if k != "translations")
    mults = {l: len(ws[l]["expressions"]) * ncent for l in letters}
    # origin choices of the *same* crystal: for a group without improper operations only proper normalizers
    # qualify (an improper one relates the crystal to its enantiomorph, a different material)
    rots = spglib.get_symmetry_from_database(hall)["rotations"]
    sohncke = all(round(np.linalg.det(r)) == 1 for r in rots)
    perms = [n["permutations"] for n in N.get(sg, [])
             if not sohncke or np.linalg.det(np.asarray(n["transformation"])[:3, :3]) > 0]
    occs = [[(l, SPECIES[0])] for l in letters]
    if max_orbits >= 2:
        for l1, l2 in itertools.product(letters, repeat=2):
            for zs in ((0, 0), (0, 1), (1, 0)):
                if zs == (0, 0) and l1 > l2:
                    continue
                occs.append([(l1, SPECIES[zs[0]]), (l2, SPECIES[zs[1]])])
    if len(occs) > cap:
        rng = np.random.default_rng(1000 + sg)
        keep = sorted(rng.choice(len(occs), cap, replace=False))
        occs = [occs[i] for i in keep]
    # three orbits (several orbits of one element on exchanged letters: counts differ between candidates)
    rng = np.random.default_rng(sg)
    for _ in range(cap // 3 if max_orbits < 3 else cap):
        occs.append([(str(rng.choice(letters)), SPECIES[int(rng.integers(nspecies))]) for _ in range(3)])
    out = []
    for occ in occs:
        if sum(mults[l] for l, _ in occ) > 600:
            continue
        rec = {"sg": sg, "orbits": [{"letter": l, "z": z} for l, z in occ], "res": _call(an, sg, occ, mults), "variants": []}
        for p in perms:
            moved = [(p[l], z) for l, z in occ]
            rec["variants"].append(_call(an, sg, moved, mults))
        out.append(rec)
    return out


def model_layer(run, tier, d):
    symdata, refgroups, tab, _ = export_data.export_all(d)
    import inspect

    from matid.symmetry import symmetryanalyzer

    # FilterImproper mirrors the repaired code; detected from the source so that the *model* follows the tree
    # (a tree without the filter is judged by the same property predicates and fails ProperIfSohncke)
    src = inspect.getsource(symmetryanalyzer.SymmetryAnalyzer._find_wyckoff_ground_state)
    filt = "1" if "get_is_chiral" in src else "0"
    cap = 60 if tier == "quick" else 1500
    jobs = [(sg, 2 if tier == "quick" else 3, 2 if tier == "quick" else 3, cap) for sg in range(1, 231)]
    recs = []
    for group in pmap(work, jobs, chunksize=2):
        for r in group:
            r["tid"] = len(recs) + 1
            recs.append(r)
    # validated in batches: the thorough tier produces ~4e5 records (230 MB of ndjson), too much for one JVM
    res, fails = tlc.run_chunks("GroundState.tla", "GroundState.cfg", recs, os.path.join(d, "groundstate"),
                                env={"SYMDATA": symdata, "REFGROUPS": refgroups, "FILTER_IMPROPER": filt}, chunk=15000, timeout=3000)
    run.add_model(res, "GroundState: %d occupations x every origin choice, all 230 groups (selection core)" % len(recs))
    run.traces(len(recs))
    run.count(len(recs))
    run.notes["groundstate_occupations"] = len(recs)
    run.notes["groundstate_nonidentity_selected"] = sum(1 for r in recs if r["variants"] and any(v["occ"] != r["res"]["occ"] for v in r["variants"]) or r["res"]["det"] == -1)
    for r, (clause,) in fails:
        desc = "sg=%d orbits=%s" % (r["sg"], [(o["letter"], o["z"]) for o in r["orbits"]])
        if clause.startswith("DRIFT"):
            run.model_drift("GroundState %s %s" % (clause, desc))
        else:
            run.violation("%s groundstate clause=%s %s" % (run.pid, clause, desc),
                          "%s in _find_wyckoff_ground_state for %s: result %s, variants %s" % (
                              clause, desc, r["res"], [v["occ"] for v in r["variants"]][:6]), r)
    return recs
