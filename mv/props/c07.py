"""C07 - Wyckoff sets are exactly the symmetry orbits of the conventional cell.  Spec: Crystal.tla (V07);
exhaustive core: SymTables.tla OrbitClosed / NormalizerPermutation (run by C14)."""
from ..common import Run, scratch
from . import symcommon


def run(tier):
    run = Run("C07", tier, "exploration")
    d = scratch("c07")
    streams = [0] if tier == "quick" else [0, 1, 2, 3]
    jobs = [(sg, s, 3 if tier == "quick" else 4, None, 64, "C07") for sg in range(1, 231) for s in streams]
    # force non-identity normalizers to be selected: occupy a letter that some tabulated normalizer moves to an
    # alphabetically earlier one (and that earlier letter as well, with another species)
    from matid.data.symmetry_data import CHIRALITY_PRESERVING_EUCLIDEAN_NORMALIZERS as NORM

    forced = 0
    for sg in range(1, 231):
        seen = set()
        for n in NORM.get(sg, []):
            p = n["permutations"]
            moved = sorted(l for l in p if p[l] < l)
            if not moved:
                continue
            pair = (moved[0], p[moved[0]])
            if pair in seen:
                continue
            seen.add(pair)
            if tier == "quick" and len(seen) > 2:
                break
            for s_ in ([0, 1] if tier == "quick" else [0, 1, 2, 3]):
                jobs.append((sg, 10 + s_, 1, [pair[0], pair[1]], 96, "C07"))
                forced += 1
    # every group once with its general position occupied (the last letter of the table: 'A' in group 47, which sorts before 'a')
    from matid.data.symmetry_data import WYCKOFF_SETS as WS

    general = 0
    for sg in range(1, 231):
        letters = [k for k in WS[sg] if k != "translations"]
        mult = {l: len(WS[sg][l]["expressions"]) * (1 + len(WS[sg].get("translations", []))) for l in letters}
        g = max(letters, key=lambda l: (mult[l], l.isupper(), l))
        if mult[g] <= 96 and (tier == "thorough" or sg % 2 or len(letters) > 26):
            jobs.append((sg, 30, 1, [g], 96, "C07"))
            general += 1
    run.notes["general_position_jobs"] = general
    run.notes["forced_normalizer_jobs"] = forced
    recs = symcommon.collect(run, jobs)
    symcommon.judge(run, recs, "C07", d, lambda r, c: (
        "C07 clause=%s sg=%d letters=%s p_index=%s" % (c, r["sg"], r["gen_letters"], r["pres"].get("p_index")),
        "%s: sets %s on a crystal of group %d (presentation %s)" % (c, [(s["letter"], s["z"], s["mult"]) for s in r["sets"]], r["sg"], r["pres"])))
    for r in recs:
        run.nontrivial((r["sg"], tuple(r["gen_letters"]), r["pres"].get("p_index")))
    run.notes["letter_reference_available"] = sum(1 for r in recs if r["ind_conv"]["identity"])
    symcommon.sample(run, recs)
    run.assume("reference operations = spglib Hall database in the standard setting, applied exactly on the Q-grid (tolerance 8/960000)",
               "letters are compared with spglib's assignment on the returned cell only when spglib reports identity transformation and zero origin shift (counted)",
               "crystals from ASE's space-group tables; group of each presentation confirmed by an independent spglib search")
    run.cov["rule"] = "crystals in all 230 groups (1-3 orbits on general/special positions) x presentations (basis change, supercell, rotation, translation, permutation, unwrapped atoms); non-trivial = distinct (group, letters, presentation)"
    return run.finish()
