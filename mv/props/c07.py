"""C07 - Wyckoff sets are exactly the symmetry orbits of the conventional cell.  Spec: Crystal.tla (V07);
exhaustive core: SymTables.tla OrbitClosed / NormalizerPermutation (run by C14)."""
from ..common import Run, scratch
from . import symcommon


def run(tier):
    run = Run("C07", tier, "exploration")
    d = scratch("c07")
    streams = [0] if tier == "quick" else [0, 1, 2, 3]
    jobs = [(sg, s, 3 if tier == "quick" else 4, None, 64, "C07") for sg in range(1, 231) for s in streams]
    recs = symcommon.collect(run, jobs)
    symcommon.judge(run, recs, "C07", d, lambda r, c: (
        "C07 clause=%s sg=%d letters=%s p_index=%s" % (c, r["sg"], r["gen_letters"], r["pres"].get("p_index")),
        "%s: sets %s on a crystal of group %d (presentation %s)" % (c, [(s["letter"], s["z"], s["mult"]) for s in r["sets"]], r["sg"], r["pres"])))
    for r in recs:
        run.nontrivial((r["sg"], tuple(r["gen_letters"]), r["pres"].get("p_index")))
    run.notes["letter_reference_available"] = sum(1 for r in recs if r["ind_conv"]["identity"])
    symcommon.sample(run, recs)
    run.assume("reference operations = spglib Hall database in the standard setting, applied exactly on the Q-grid (tolerance 8/960000)",
               "letters are compared with spglib's assignment on the returned cell only when spglib reports identity transformation and zero origin shift (counted)",
               "crystals from ASE's space-group tables; group of each presentation confirmed by an independent spglib search")
    run.cov["rule"] = "crystals in all 230 groups (1-3 orbits on general/special positions) x presentations (basis change, supercell, rotation, translation, permutation, unwrapped atoms); non-trivial = distinct (group, letters, presentation)"
    return run.finish()
