"""Shared driver of the analyzer-contract properties (C05, C06, C07, C08, C12): generate crystals in all
230 groups, present them in different ways, observe the analyzer, and let TLC judge (Crystal.tla)."""
import os

import numpy as np

from .. import crystals, export_data, symobs, symrun, tlc
from ..common import MachineryError, Run, dump_ndjson, pmap, rng_for, scratch

HOLO_SG = {"a": 2, "m": 10, "o": 47, "t": 123, "hR": 166, "h": 191, "c": 221}
_holo_cache = {}


def holo(bravais):
    import spglib

    key = "hR" if bravais == "hR" else bravais[0]
    if key not in _holo_cache:
        h = export_data.hall_numbers()[HOLO_SG[key]]
        rots = spglib.get_symmetry_from_database(h)["rotations"]
        uniq = {tuple(map(tuple, r)) for r in rots if round(np.linalg.det(r)) == 1}
        _holo_cache[key] = [np.array(r) for r in sorted(uniq)]
    return _holo_cache[key]


ORIGIN_MOVES = [(0.5, 0.5, 0.5), (0.5, 0, 0), (0, 0, 0.5), (0.5, 0.5, 0), (0.25, 0.25, 0.25), (0, 0.5, 0.5), (0, 0.5, 0), (1 / 3, 2 / 3, 0),
                (0.5, 0, 0.5), (0, 0, 0.25), (1 / 3, 2 / 3, 0.5), (0.25, 0.25, 0.75)]


def work(job):
    """job = (sg, stream, npres, letters, max_atoms, mode) -> list of records (one per presentation)"""
    sg, stream, npres, letters, max_atoms, mode = job[:6]
    origin_moves = len(job) > 6 and job[6]
    if letters is None:
        c = symobs.find_crystal(sg, k0=stream * 20, max_atoms=max_atoms)
    else:
        c = None
        for k in range(stream * 20, stream * 20 + 8):
            c = crystals.gen_crystal(sg, k, max_atoms=max_atoms, letters=letters)
            if c is not None:
                break
    if c is None:
        return [{"sg": sg, "skip": "no crystal generated", "letters": letters}]
    rng = rng_for("sym-present", sg, stream, letters)
    out = []
    analyzers = []
    GETTERS = ["get_material_id", "get_wyckoff_letters_original", "get_primitive_system", "get_conventional_system",
               "get_equivalent_atoms_primitive", "get_has_free_wyckoff_parameters", "get_wyckoff_sets_conventional", "get_space_group_number",
               "get_wyckoff_letters_primitive", "get_wyckoff_letters_conventional", "get_equivalent_atoms_conventional",
               "get_equivalent_atoms_original", "get_is_chiral", "get_bravais_lattice"]
    for j in range(npres):
        if j == 0:
            at, pres = c["atoms"], {"p_index": 0, "as_generated": True}
        elif origin_moves:
            # the same crystal with its origin moved by a special fraction of the conventional cell: the translations by which
            # the alternative origins of a space group differ (spglib then standardises in another setting and the analyzer
            # has to bring the labelling back with a normalizer); nothing else changes
            f = ORIGIN_MOVES[0 if j == 1 else 1 + (sg + stream + j) % (len(ORIGIN_MOVES) - 1)]
            at = c["atoms"].copy()
            at.translate(np.array(f, dtype=float) @ at.cell[:])
            at.wrap()
            pres = {"p_index": 0, "origin_move_24ths": [int(round(24 * x)) for x in f]}
        else:
            at, pres = crystals.present(c["atoms"], rng, p_index=(sg + stream + 3 * j) % len(crystals.PRESENT_P), unwrap=bool(j % 2 == 0),
                                        primitive=bool(j % 3 == 1), origin_on_atom=bool(j == npres - 1 and j % 2 == 1))
        r = {"sg": sg, "cid": "%d/%d/%s" % (sg, stream, "".join(letters or [])), "j": j, "pres": pres, "gen_letters": c["letters"], "two_dimensional": False,
             "gen_species": c["species"]}
        try:
            if crystals.spg_number(at, crystals.TOL) != sg or len(at) > 4 * max_atoms:
                r["skip"] = "presentation not confirmed by the independent search"
            else:
                # histories: every second presentation goes to the analyzer object that analysed the previous one
                # (set_system), and the getters are called in a shuffled order first
                reuse = analyzers[-1] if (j % 2 == 1 and analyzers) else None
                if j == 0 and stream % 2 == 1:
                    # ... and every second crystal is first seen by an analyzer that analysed another (achiral) crystal
                    from ase.build import bulk
                    from matid.symmetry import SymmetryAnalyzer

                    reuse = SymmetryAnalyzer(bulk("NaCl", "rocksalt", a=5.64), symmetry_tol=crystals.TOL)
                    reuse.get_conventional_system()
                    reuse.get_is_chiral()
                    reuse.get_wyckoff_letters_original()
                order = [GETTERS[i] for i in rng.permutation(len(GETTERS))[: 3]] if j >= 1 else None
                r["history"] = {"reused": reuse is not None, "order": order or []}
                r.update(symrun.observe(at, with_params=mode in ("C08", "all"), reuse=reuse, keep=analyzers, order=order))
                if mode in ("C05", "all"):
                    h = symrun.congruence_hint(r, holo(r["bravais"]))
                    r["hint_ok"] = h is not None
                    r["hint"] = h or {"A": [[1, 0, 0], [0, 1, 0], [0, 0, 1]], "t": [0, 0, 0]}
        except Exception as e:
            r["error"] = "%s: %s" % (type(e).__name__, str(e)[:200])
        out.append(r)
    return out


def collect(run, jobs):
    recs, nogen, skipped = [], 0, 0
    for group in pmap(work, jobs, chunksize=2):
        first = None
        for r in group:
            if r.get("skip") == "no crystal generated":
                nogen += 1
                continue
            if "skip" in r:
                skipped += 1
                continue
            if "error" in r:
                run.violation("%s sg=%d letters=%s analyzer raises" % (run.pid, r["sg"], r["gen_letters"]),
                              "SymmetryAnalyzer raised on a valid crystal: %s (presentation %s)" % (r["error"], r["pres"]), r)
                continue
            r["tid"] = len(recs) + 1
            if first is None:
                first = r["tid"]
            r["first"] = first
            recs.append(r)
    run.notes["crystals_not_generated"] = nogen
    run.notes["presentations_discarded_unconfirmed"] = skipped
    return recs


def judge(run, recs, mode, d, keyfn):
    symdata, refgroups, _, _ = export_data.export_all(d)
    tp = os.path.join(d, "crystal.ndjson")
    dump_ndjson(tp, recs)
    res = tlc.run("Crystal.tla", "Crystal.cfg", env={"TRACE_FILE": tp, "MODE": mode, "SYMDATA": symdata, "REFGROUPS": refgroups},
                  timeout=3000)
    if res.distinct != 2 * len(recs):
        raise MachineryError("Crystal consumed %d of %d records" % (res.distinct // 2, len(recs)))
    run.add_model(res, "Crystal(%s): %d analyzer observations" % (mode, len(recs)))
    run.traces(len(recs))
    run.count(len(recs))
    for tid, clause in res.printed("FAIL"):
        r = recs[tid - 1]
        key, what = keyfn(r, clause)
        if clause.startswith("DRIFT"):
            # an assumption of the model about its environment (here: spglib's dataset) does not hold: not a verdict on matid
            run.model_drift("%s (%s)" % (clause, key))
            continue
        slim = {k: v for k, v in r.items() if k not in ("conv", "std", "let_orig", "eq_orig", "z_orig", "eq_conv", "eq_prim", "let_prim", "ds")}
        slim["conv_n"] = r["conv"]["n"]
        run.violation(key, what, slim)
    return res


def sample(run, recs):
    for r in recs[:2]:
        run.sample({k: r[k] for k in ("sg", "cid", "pres", "gen_letters", "number", "id", "sets", "has_free") if k in r})
