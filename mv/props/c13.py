"""C13 - Cluster.get_dimensionality agrees with matid.geometry.get_dimensionality on the cluster's atoms.
Specs: SBC.tla (CacheCoherent in every behaviour; SBC_mc3_asfound.cfg is the code as found and is kept as a
sensitivity demonstration), TraceSBCVerdict.tla (ShortcutAgrees, DimStable on every returned cluster)."""
import os

from .. import sbcrun, structures, tlc
from ..common import MachineryError, Run, dump_ndjson, pmap, scratch

VARIANTS = [
    {},
    {"bond_threshold": 0.4},
    {"radii": "vdw", "bond_threshold": 0.5},
    {"bond_threshold": 1.0},
    {"radii": "custom", "bond_threshold": 0.8},
    {"radii": "vdw_covalent", "bond_threshold": 0.65, "seed": 11},
    {"radii": "custom", "bond_threshold": 0.65},
    {"radii": "custom", "bond_threshold": 0.5, "seed": 5},
    {"radii": "custom_wide", "bond_threshold": 0.65},
    {"radii": "custom_wide", "bond_threshold": 0.9, "seed": 3},
]


def jobs_for(tier):
    fam = [x for x in structures.c01_family(tier) if x[0] not in ("gas", "degen", "mol")]
    fam += [x for x in structures.c01_family(tier) if x[0] == "gas"][:6]
    # small two-species films over large slabs: the clusters' index lists are then not ascending (they come out of Python sets),
    # atoms renumbered at random
    films = [("film", {"el": el, "n": n, "layers": lay, "A": A, "X": X, "m": m, "gap": 4.5, "pbc": pbc, "i": i})
             for i, (el, n, lay, A, X, m, pbc) in enumerate([("Cu", 6, 6, "Mg", "O", 6, (True, True, True)), ("Al", 6, 4, "Na", "Cl", 6, (True, True, False)),
                                                              ("Cu", 7, 4, "Ca", "O", 7, (True, True, True)), ("Ag", 6, 6, "K", "F", 6, (True, True, True))])]
    fam = films[:2 if tier == "quick" else 4] + fam
    jobs = []
    for k, (kind, desc) in enumerate(fam):
        if kind == "film":
            for params in (VARIANTS[8], VARIANTS[6]) if tier == "thorough" else (VARIANTS[8],):
                jobs.append((kind, desc, params, {"rigid": True, "dims": True, "rerun": False, "shared_history": False}))
            continue
        vs = [VARIANTS[k % len(VARIANTS)]] if tier == "quick" else [VARIANTS[k % len(VARIANTS)], VARIANTS[(k + 3) % len(VARIANTS)]]
        for params in vs:
            jobs.append((kind, desc, params, {"rigid": k % 2 == 0, "dims": True, "rerun": False, "shared_history": k % 3 == 1 or desc.get("ads") == desc.get("el") or kind in ("rsstack", "displaced")}))
    return jobs


def run(tier):
    run = Run("C13", tier, "model_checking")
    d = scratch("c13")
    res = tlc.run("SBC.tla", "SBC_mc3.cfg", timeout=1800)
    if res.violated:
        raise MachineryError("design model SBC.tla (repaired cache handling) violates %s" % res.violated)
    run.add_model(res, "SBC_mc3 (CleanResetsCache = TRUE): CacheCoherent holds in every behaviour, N=3")
    sens = tlc.run("SBC.tla", "SBC_mc3_asfound.cfg", timeout=1800, must_pass=False)
    run.notes["sensitivity_model_as_found_violates"] = sens.violated
    if sens.violated != "CacheCoherent":
        raise MachineryError("the as-found cache model should violate CacheCoherent (vacuity guard), got %r" % sens.violated)

    recs = pmap(sbcrun.execute, jobs_for(tier))
    keep, skipped = [], 0
    for r in recs:
        if "skip" in r or not r.get("dims"):
            skipped += 1
            continue
        r["tid"] = len(keep) + 1
        r["error"] = r["error"] or ""
        keep.append(r)
    run.notes["executions_without_clusters_or_skipped"] = skipped
    tp = os.path.join(d, "verdict.ndjson")
    dump_ndjson(tp, keep)
    res = tlc.run("TraceSBCVerdict.tla", "TraceSBCVerdict.cfg", env={"TRACE_FILE": tp, "MODE": "C13"}, timeout=1800)
    if res.distinct != 2 * len(keep):
        raise MachineryError("TraceSBCVerdict consumed %d of %d records" % (res.distinct // 2, len(keep)))
    run.add_model(res, "TraceSBCVerdict(C13): %d executions" % len(keep))
    run.traces(len(keep))
    nclusters = 0
    for r in keep:
        nclusters += len(r["dims"])
        ev = {e["ev"]: e for e in (r.get("events") or []) if e["ev"] != "seed"}
        lost = "cleaned" in ev and "localized" in ev and [c["idx"] for c in ev["cleaned"]["clusters"]] != [c["idx"] for c in ev["localized"]["clusters"]]
        merged = any(c["mg"] for c in ev.get("cleaned", {"clusters": []})["clusters"])
        if lost:
            run.nontrivial(("lost-atoms", r["tid"]))
        if merged:
            run.nontrivial(("merged", r["tid"]))
        if r["params"].get("radii", "covalent") != "covalent":
            run.nontrivial(("radii", r["tid"]))
    run.count(nclusters)
    run.notes["clusters_checked"] = nclusters
    for tid, clause in res.printed("FAIL"):
        r = keep[tid - 1]
        key = "C13 clause=%s kind=%s desc=%s params=%s" % (clause, r["kind"], sorted(r["desc"].items()), sorted(r["params"].items()))
        run.violation(key, "%s: shortcut/direct/again = %s on %s %s" % (
            clause, [(x["shortcut"], x["direct"], x["again"]) for x in r["dims"]], r["kind"], r["desc"]),
            {k: v for k, v in r.items() if k not in ("adjC", "adjM", "bondC", "nearC", "events")})
    for r in keep[:200:41]:
        run.sample({k: r[k] for k in ("kind", "desc", "params", "n", "dims")})
    run.assume("direct evaluation uses the harness' own resolution of the radii preset / custom array, indexed by the cluster's atoms",
               "dimension encoding: -1 = None; -9 / -8 = the call raised")
    run.cov["rule"] = ("every cluster returned for the crystalline part of the C01 family under radii/threshold variants; "
                       "non-trivial = executions where cleaning removed atoms, a merged cluster was returned, or non-default radii were used")
    return run.finish()
