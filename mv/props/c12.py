"""C12 - original, primitive and conventional descriptions are mutually consistent.  Spec: Crystal.tla (V12)."""
from .. import tlc
from ..common import Run, scratch
from . import symcommon


def history_model(run, d):
    """Analyzer.tla: cache / reset structure extracted from the live source; a stale-cache counterexample is
    replayed into the real class (two different crystals through one analyzer object)."""
    import os

    from .. import analyzer_model, crystals, symobs, symrun, tlc

    path = os.path.join(d, "analyzer_model.json")
    am = analyzer_model.export(path)
    res = tlc.run("Analyzer.tla", "Analyzer.cfg", env={"ANALYZER_MODEL": path}, must_pass=False)
    if res.error:
        run.model_drift("Analyzer.tla could not be evaluated: %s" % res.error[:200])
        return
    run.add_model(res, "Analyzer: cache/reset state machine extracted from the source (%d attributes, %d public methods), NoStaleCache" % (
        len(am["fields"]), len(am["methods"])))
    if not res.violated:
        return
    reinit = set(am["reinit"])
    A = symobs.find_crystal(216, 0)["atoms"]
    B = symobs.find_crystal(62, 0)["atoms"]
    fresh = symrun.observe(B)
    for m in am["methods"]:
        stale = sorted(set(m["assigns"]) - reinit)
        if not stale:
            continue
        try:
            from matid.symmetry import SymmetryAnalyzer

            an = SymmetryAnalyzer(A, symmetry_tol=crystals.TOL)
            getattr(an, m["name"])()
            reused = symrun.observe(B, reuse=an)
        except Exception as e:
            reused = {"error": "%s: %s" % (type(e).__name__, e)}
        diff = sorted(k for k in fresh if k not in ("reused_analyzer",) and reused.get(k) != fresh[k])
        if diff:
            run.violation("C12 history method=%s stale=%s" % (m["name"], stale),
                          "after %s() on another crystal and set_system(), the analyzer reports different %s than a fresh analyzer (attributes %s are not re-initialised by set_system)" % (
                              m["name"], diff[:6], stale), {"method": m["name"], "stale": stale, "differs": diff})
        else:
            run.model_drift("Analyzer.tla: attributes %s filled by %s() survive set_system(), no observable difference found" % (stale, m["name"]))


def run(tier):
    run = Run("C12", tier, "exploration")
    d = scratch("c12")
    history_model(run, d)
    streams = [0] if tier == "quick" else [0, 1, 2, 3]
    jobs = [(sg, s, 3 if tier == "quick" else 4, None, 64, "C12") for sg in range(1, 231) for s in streams]
    recs = symcommon.collect(run, jobs)
    # design model of the label transport (np.unique representatives + two index maps), with the two refuted variants
    from ..common import MachineryError

    mres = tlc.run("Mappings.tla", "Mappings_unique.cfg")
    if mres.violated:
        raise MachineryError("Mappings.tla violates %s" % mres.violated)
    run.add_model(mres, "Mappings: every dataset with 5 input, 3 primitive, 4 standardized atoms (LabelsCarried)")
    for v in ("first_increase", "arange"):
        vres = tlc.run("Mappings.tla", "Mappings_%s.cfg" % v, must_pass=False)
        if vres.violated != "LabelsCarried":
            raise MachineryError("vacuity guard: Mappings variant %s should violate LabelsCarried" % v)
    run.notes["mappings_variants_refuted"] = ["first_increase", "arange"]
    symcommon.judge(run, recs, "C12", d, lambda r, c: (
        "C12 clause=%s sg=%d letters=%s p_index=%s" % (c, r["sg"], r["gen_letters"], r["pres"].get("p_index")),
        "%s: n_in=%d n_prim=%d n_conv=%d on a crystal of group %d (presentation %s)" % (c, r["n_in"], r["prim"]["n"], r["conv"]["n"], r["sg"], r["pres"])))
    cent = {}
    for r in recs:
        run.nontrivial((r["sg"], r["pres"].get("p_index")))
        cent[r["bravais"]] = cent.get(r["bravais"], 0) + 1
    run.notes["per_bravais_lattice"] = cent
    symcommon.sample(run, recs)
    run.assume("centring multiplicity from the reference group's symbol; primitivity and space group of the primitive cell from an independent spglib search",
               "volumes in 1e-3 A^3 with 2e-4 relative tolerance")
    run.cov["rule"] = "C05 crystal family over all 230 groups (all centring types) x presentations incl. permuted supercells; non-trivial = distinct (group, presentation)"
    return run.finish()
