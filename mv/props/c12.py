"""C12 - original, primitive and conventional descriptions are mutually consistent.  Spec: Crystal.tla (V12)."""
from ..common import Run, scratch
from . import symcommon


def run(tier):
    run = Run("C12", tier, "exploration")
    d = scratch("c12")
    streams = [0] if tier == "quick" else [0, 1, 2, 3]
    jobs = [(sg, s, 3 if tier == "quick" else 4, None, 64, "C12") for sg in range(1, 231) for s in streams]
    recs = symcommon.collect(run, jobs)
    symcommon.judge(run, recs, "C12", d, lambda r, c: (
        "C12 clause=%s sg=%d letters=%s p_index=%s" % (c, r["sg"], r["gen_letters"], r["pres"].get("p_index")),
        "%s: n_in=%d n_prim=%d n_conv=%d on a crystal of group %d (presentation %s)" % (c, r["n_in"], r["prim"]["n"], r["conv"]["n"], r["sg"], r["pres"])))
    cent = {}
    for r in recs:
        run.nontrivial((r["sg"], r["pres"].get("p_index")))
        cent[r["bravais"]] = cent.get(r["bravais"], 0) + 1
    run.notes["per_bravais_lattice"] = cent
    symcommon.sample(run, recs)
    run.assume("centring multiplicity from the reference group's symbol; primitivity and space group of the primitive cell from an independent spglib search",
               "volumes in 1e-3 A^3 with 2e-4 relative tolerance")
    run.cov["rule"] = "C05 crystal family over all 230 groups (all centring types) x presentations incl. permuted supercells; non-trivial = distinct (group, presentation)"
    return run.finish()
