"""C09 - dimensionality is the rank of the periodic bonding network, however presented.
Specs: Dimensionality.tla (DefDim, AlgoDim), DimModel.tla (exhaustive design check), TraceDim.tla (verdicts)."""
import itertools
import os

import numpy as np

from .. import structures, tlc, zworld
from ..common import MachineryError, Run, dump_ndjson, pmap, rng_for, scratch
from ..sbcrun import own_radii

AMBIG = 1e-6


def enc_dim(d):
    return -1 if d is None else int(d)


# ------------------------------------------------------------------ Z-world
def z_configs(tier):
    out = []
    per = {"quick": 3, "thorough": 14}[tier]
    for ci, name in enumerate(zworld.CELLS):
        cell = zworld.CELLS[name]
        pts = zworld.inside_points(cell)
        for pi, pbc in enumerate(zworld.PBCS):
            for k in range(per):
                rng = rng_for("c09z", name, pbc, k)
                n = min(int(rng.integers(1, 5)) if k < per - 1 else int(rng.integers(4, 9)), len(pts))
                idx = rng.choice(len(pts), n, replace=False)
                pos = [pts[i] for i in idx]
                # atoms displaced by lattice vectors of periodic directions (presentation must not matter)
                if k % 3 == 2:
                    n = min(n, 4)
                    pos = pos[:n]
                    sh = rng.integers(-2, 3, (n, 3)) * np.array(pbc)[None, :]
                    pos = (np.array(pos) + sh @ np.array(cell)).tolist()
                thr2x2 = int([1, 3, 5, 9, 13, 19][(ci + pi + k) % 6])
                if k == 0 and not any(pbc):
                    # the unrotated, unscaled frame is exact in floating point: thresholds 1, 2, 3 (thr2x2 = 2 thr^2 even) put
                    # lattice neighbours EXACTLY at the threshold - "distance minus radii <= threshold" bonds them.  Only for
                    # entirely non-periodic inputs: with a periodic direction get_dimensionality first wraps the atoms into
                    # the cell (floating point), after which an exact tie is decided by rounding
                    thr2x2 = int([2, 8, 18][ci % 3])
                out.append({"cellname": name, "cell": cell, "pbc": list(pbc), "pos": pos, "thr2x2": thr2x2, "k": k})
            if name in ("mangled", "sheared") and any(pbc):
                # strongly sheared cells (long vectors, small heights) with the largest thresholds and 4-8 atoms, in both tiers: where a
                # shortcut that measures distances to periodic images along the cell vectors goes wrong
                for kk in (0, 1):
                    rng = rng_for("c09z-sheared", name, pbc, kk)
                    n = min(int(rng.integers(4, 9)), len(pts))
                    pos = [pts[i] for i in rng.choice(len(pts), n, replace=False)]
                    out.append({"cellname": name, "cell": cell, "pbc": list(pbc), "pos": pos, "thr2x2": [13, 19][kk], "k": 100 + kk})
    return out


def z_execute(cfg):
    import matid.geometry
    from ase import Atoms

    rng = rng_for("c09zrun", cfg["cellname"], cfg["pbc"], cfg["pos"], cfg["thr2x2"])
    fr = zworld.Frame(rng, rotate=cfg["k"] != 0)
    cell, pbc, pos = cfg["cell"], cfg["pbc"], cfg["pos"]
    n = len(pos)
    # box for the in-spec edge enumeration
    per = np.array(cell, dtype=np.int64) * np.array(pbc)[:, None]
    d2max = max([int(np.dot(np.subtract(a, b), np.subtract(a, b))) for a in pos for b in pos] + [0])
    half = (d2max + (cfg["thr2x2"] + 1) // 2 + 1) // 2 + 1
    Kb = zworld.safe_k(per.tolist(), half)
    if Kb is None or (2 * Kb + 1) ** sum(pbc) * n * n > 150000:
        return {"skip": "box too large"}
    at = Atoms(numbers=[6] * n, positions=fr.to_code(pos), cell=fr.to_code(cell), pbc=pbc)
    rec = {"ev": "zdim", "cell": cell, "pbc": pbc, "pos": pos, "thr2x2": cfg["thr2x2"], "Kb": Kb, "n": n,
           "cfg": {"cellname": cfg["cellname"], "k": cfg["k"]}}
    try:
        dim, clusters = matid.geometry.get_dimensionality(at, fr.length(cfg["thr2x2"]), radii=np.zeros(n), return_clusters=True)
    except Exception as e:
        rec["error"] = "%s: %s" % (type(e).__name__, e)
        return rec
    rec["dim"] = enc_dim(dim)
    rec["clusters"] = [sorted(int(i) + 1 for i in c) for c in clusters]
    return rec


# ------------------------------------------------------------------ real-valued systems
def r_configs(tier):
    out = []
    per = {"quick": 2, "thorough": 12}[tier]
    shapes = ["gas", "layer", "chain", "blob"]
    cells = ["orthogonal", "skewed", "sheared"]
    k = 0
    for pbc in structures.PBCS:
        for shape in shapes:
            for cell in cells:
                for j in range(per):
                    k += 1
                    out.append({"shape": shape, "cell": cell, "pbc": list(pbc), "j": j,
                                "radii": ["covalent", "vdw", "custom"][k % 3], "thr": [0.3, 0.65, 1.0, 2.0, 3.5][k % 5],
                                "present": ["asis", "shifted", "basis", "supercell", "rigid"][(k // 3) % 5]})
    return out


def _make(cfg, rng):
    from ase import Atoms

    n = int(rng.integers(1, 31)) if cfg["j"] % 2 else int(rng.integers(1, 9))
    L = float(rng.choice([0.5, 2.0, 3.5, 6.0, 12.0, 30.0])) if cfg["shape"] == "gas" else float(rng.uniform(3.0, 14.0))
    cell = structures.random_cell(rng, cfg["cell"], L)
    f = rng.uniform(0, 1, (n, 3))
    if cfg["shape"] == "layer":
        f[:, 2] = 0.5 + rng.normal(scale=0.03, size=n)
    elif cfg["shape"] == "chain":
        f[:, 1:] = 0.5 + rng.normal(scale=0.03, size=(n, 2))
    elif cfg["shape"] == "blob":
        f = 0.5 + rng.normal(scale=0.12, size=(n, 3))
    f %= 1.0
    z = rng.choice([1, 6, 8, 14, 29, 55], n)
    return Atoms(numbers=z, scaled_positions=f, cell=cell, pbc=cfg["pbc"])


def _present(at, how, rng):
    at = at.copy()
    pbc = at.get_pbc()
    if how == "shifted":
        at.positions += (rng.integers(-5, 6, (len(at), 3)) * pbc[None, :]) @ at.cell[:]
    elif how == "basis":
        P = np.eye(3, dtype=int)
        per = [i for i in range(3) if pbc[i]]
        if len(per) >= 2:
            a, b = per[0], per[1]
            P[a, b] = int(rng.integers(-2, 3))  # a' = a + m b : same lattice
        at.set_cell(P @ at.cell[:], scale_atoms=False)
        at.wrap()
    elif how == "supercell":
        rep = [int(rng.integers(1, 3)) if pbc[i] else 1 for i in range(3)]
        at = at.repeat(rep)
    elif how == "rigid":
        at, _ = structures.rigid(at, rng)
    return at


def edge_list(at, radii, thr):
    """labelled edges <i, j, n> (1-based, i<j or i=j with n lexicographically positive) by brute-force image sums;
    returns (edges, ambiguous?)"""
    pos = at.get_positions()
    cell = at.get_cell()[:]
    pbc = at.get_pbc()
    n = len(at)
    reach = thr + 2 * float(np.max(radii))
    if reach < 0:
        return [], False
    per = [i for i in range(3) if pbc[i]]
    rngs = []
    for i in range(3):
        if not pbc[i]:
            rngs.append([0])
            continue
        others = [cell[j] for j in per if j != i]
        v = cell[i].copy()
        Q = []
        for o in others:
            w = o.copy()
            for q in Q:
                w -= (w @ q) * q
            if np.linalg.norm(w) > 1e-12:
                Q.append(w / np.linalg.norm(w))
        for q in Q:
            v -= (v @ q) * q
        h = np.linalg.norm(v)
        frac_span = np.ptp(np.linalg.solve(cell.T, pos.T).T[:, i]) if n > 1 else 0.0
        K = int(np.ceil(reach / h + frac_span)) + 1
        rngs.append(list(range(-K, K + 1)))
    if len(rngs[0]) * len(rngs[1]) * len(rngs[2]) * n * n > 6e6:
        return None, False
    ns = np.array(list(itertools.product(*rngs)))
    shifts = ns @ cell
    edges = []
    amb = False
    rsum = radii[:, None] + radii[None, :]
    for k, (nv, sh) in enumerate(zip(ns, shifts)):
        d = np.linalg.norm(pos[:, None, :] - pos[None, :, :] - sh[None, None, :], axis=2) - rsum
        if not nv.any():
            np.fill_diagonal(d, np.inf)
        if np.any(np.abs(d - thr) < AMBIG):
            amb = True
        ii, jj = np.nonzero(d <= thr)
        for a, b in zip(ii, jj):
            if a < b or (a == b and tuple(nv) > (0, 0, 0)) or (a > b and False):
                edges.append([int(a) + 1, int(b) + 1, int(nv[0]), int(nv[1]), int(nv[2])])
    return edges, amb


def r_execute(cfg):
    import matid.geometry

    rng = rng_for("c09r", sorted(cfg.items()))
    at = _present(_make(cfg, rng), cfg["present"], rng)
    z = at.get_atomic_numbers()
    if cfg["radii"] == "custom":
        radii_arg = rng.uniform(0.3, 1.6, len(at))
        rr = radii_arg
    else:
        radii_arg = cfg["radii"]
        rr = np.asarray(own_radii(cfg["radii"], z), dtype=float)
    if not np.all(np.isfinite(rr)):
        return {"skip": "radii undefined"}
    # cost guard for the code itself (tiny cells with long reach explode the extended system)
    cell = at.get_cell()[:]
    vol = abs(np.linalg.det(cell))
    reach = cfg["thr"] + 2 * rr.max()
    if any(at.get_pbc()) and vol > 0 and (2 * reach) ** 3 / max(vol, 1e-9) * len(at) > 2e5:
        return {"skip": "too many images"}
    edges, amb = edge_list(at, rr, cfg["thr"])
    if edges is None:
        return {"skip": "too many images"}
    if amb:
        return {"skip": "ambiguous"}
    if len(edges) > 2500:
        return {"skip": "too many edges"}
    rec = {"ev": "edim", "n": len(at), "pbc": [bool(x) for x in at.get_pbc()], "edges": edges, "cfg": cfg}
    try:
        dim, clusters = matid.geometry.get_dimensionality(at, cfg["thr"], radii=radii_arg if isinstance(radii_arg, str) else radii_arg.copy(),
                                                          return_clusters=True)
    except Exception as e:
        rec["error"] = "%s: %s" % (type(e).__name__, e)
        return rec
    rec["dim"] = enc_dim(dim)
    rec["clusters"] = [sorted(int(i) + 1 for i in c) for c in clusters]
    return rec


def run(tier):
    run = Run("C09", tier, "model_checking")
    d = scratch("c09")
    res = tlc.run("DimModel.tla", "DimModel.cfg" if tier == "quick" else "DimModel_full.cfg", timeout=3000, must_pass=False)
    if res.error or res.violated:
        raise MachineryError("DimModel: %s %s\n%s" % (res.error, res.violated, "\n".join(res.trace[-2:])))
    run.add_model(res, "DimModel: exhaustive small Z-world, AlgoEqualsGF2 / GF2EqualsZ / ShiftInvariant")
    recs = pmap(z_execute, z_configs(tier), chunksize=8) + pmap(r_execute, r_configs(tier), chunksize=4)
    keep, skipped = [], {}
    for r in recs:
        if "skip" in r:
            skipped[r["skip"]] = skipped.get(r["skip"], 0) + 1
            continue
        if "error" in r:
            run.violation("C09 raises %s" % (r["cfg"],), "get_dimensionality raised %s" % r["error"], r)
            continue
        r["tid"] = len(keep) + 1
        keep.append(r)
    run.notes["skipped"] = skipped
    run.count(len(keep))
    tp = os.path.join(d, "dim.ndjson")
    dump_ndjson(tp, keep)
    tres = tlc.run("TraceDim.tla", "TraceDim.cfg", env={"TRACE_FILE": tp}, timeout=3000)
    if tres.distinct != 2 * len(keep):
        raise MachineryError("TraceDim consumed %d of %d records" % (tres.distinct // 2, len(keep)))
    run.add_model(tres, "TraceDim: %d recorded calls" % len(keep))
    run.traces(len(keep))
    for tid, clause in tres.printed("FAIL"):
        r = keep[tid - 1]
        if clause.startswith("HARNESS"):
            raise MachineryError("harness setup rejected by the spec (%s) on %s" % (clause, r["cfg"]))
        if r["ev"] == "zdim":
            key = "C09 clause=%s zworld cell=%s pbc=%s thr2x2=%s pos=%s" % (clause, r["cfg"]["cellname"], r["pbc"], r["thr2x2"], r["pos"])
        else:
            key = "C09 clause=%s real %s" % (clause, sorted(r["cfg"].items()))
        run.violation(key, "%s: code says dim=%s clusters=%s" % (clause, r["dim"], str(r["clusters"])[:200]),
                      {k: v for k, v in r.items() if k != "edges" or len(v) < 200})
    hist = {}
    for r in keep:
        hist[r["dim"]] = hist.get(r["dim"], 0) + 1
        if r["dim"] >= 1:
            run.nontrivial(("periodic-network", r["tid"]))
        elif r["dim"] == -1 and r["n"] > 1:
            run.nontrivial(("disconnected", r["tid"]))
    run.notes["dim_histogram"] = {str(k): v for k, v in sorted(hist.items())}
    for r in keep[:2] + [x for x in keep if x["ev"] == "edim"][:2]:
        run.sample({k: (v if k != "edges" else v[:12]) for k, v in r.items()})
    run.assume("supercell clause read as in DESIGN 5 C09: equality with the definition on every presentation",
               "real-valued samples with a pair within 1e-6 of the bonding threshold are discarded (counted in 'skipped')",
               "edge lists of real-valued samples come from the harness' brute-force image sum; Z-world edges are computed inside the spec")
    run.cov["rule"] = ("Z-world: 10 integer cells x 8 pbc x 1-8 atoms (some displaced by lattice vectors) x 6 thresholds, zero radii; "
                       "real-valued: gases/layers/chains/blobs x 3 cell shapes x 8 pbc x radii modes x thresholds x presentations; "
                       "non-trivial = networks of dimension >= 1 or disconnected multi-atom cells")
    return run.finish()
