"""C17 - classifier output is consistent with dimensionality and with its own region.
Specs: Classifier.tla (dispatch model, exhaustive), TraceClassifier.tla (V17)."""
import os

from .. import clsrun, structures, tlc
from ..common import MachineryError, Run, dump_ndjson, pmap, scratch

VARIANTS = [{}, {"min_coverage": 0.9}, {"cluster_threshold": 2.0}, {"min_coverage": 0.25, "max_cell_size": 8}, {"pos_tol": 0.5, "pos_tol_mode": "absolute"},
            {"min_coverage": 0.97}, {"bond_threshold": 0.5}]


def run(tier):
    run = Run("C17", tier, "model_checking")
    d = scratch("c17")
    res = tlc.run("Classifier.tla", "Classifier_mc.cfg")
    if res.violated:
        raise MachineryError("Classifier.tla design model violates %s" % res.violated)
    run.add_model(res, "Classifier_mc: every (dimensionality, atoms, region answer, min_coverage) for <= 4 atoms")
    fam = [x for x in structures.c01_family(tier) if x[0] != "degen"]
    jobs = []
    for k, (kind, desc) in enumerate(fam):
        vs = [VARIANTS[k % len(VARIANTS)]] if tier == "quick" else [VARIANTS[0], VARIANTS[1 + k % (len(VARIANTS) - 1)]]
        for p in vs:
            jobs.append((kind, desc, p, {"rigid": k % 2 == 0}))
    # entirely non-periodic structures without any cell
    jobs += [("gas", {"n": n, "cell": "orthogonal", "pbc": (False, False, False), "L": 6.0, "nocell": True, "i": 900 + n}, {}, {}) for n in (1, 2, 7)]
    recs = pmap(clsrun.execute_c17, jobs, chunksize=2)
    keep, skipped = [], {}
    for r in recs:
        if "skip" in r:
            skipped[r["skip"]] = skipped.get(r["skip"], 0) + 1
            continue
        r["tid"] = len(keep) + 1
        keep.append(r)
    run.notes["skipped"] = skipped
    run.count(len(keep))
    tp = os.path.join(d, "cls.ndjson")
    dump_ndjson(tp, keep)
    tres = tlc.run("TraceClassifier.tla", "TraceClassifier.cfg", env={"TRACE_FILE": tp, "MODE": "C17"})
    if tres.distinct != 2 * len(keep):
        raise MachineryError("TraceClassifier consumed %d of %d records" % (tres.distinct // 2, len(keep)))
    run.add_model(tres, "TraceClassifier(C17): %d classifications" % len(keep))
    run.traces(len(keep))
    clsrun.region_layer(run, keep, d, lambda r: -1)
    for tid, clause in tres.printed("FAIL"):
        r = keep[tid - 1]
        if clause.startswith("DRIFT"):
            run.model_drift("%s on %s %s: class %s, dim %s, region %s" % (clause, r["kind"], r["desc"], r["cls"], r["dim_wrapped"], r["region"]))
            continue
        run.violation("C17 clause=%s kind=%s desc=%s params=%s" % (clause, r["kind"], sorted(r["desc"].items()), sorted(r["params"].items())),
                      "%s: class=%s dim(wrapped)=%s error=%r on %s %s" % (clause, r["cls"], r.get("dim_wrapped"), r["error"], r["kind"], r["desc"]), r)
    hist = {}
    for r in keep:
        hist[r["cls"]] = hist.get(r["cls"], 0) + 1
        if r["cls"] in ("Surface", "Material2D", "Class2D", "Class1D", "Class3D"):
            run.nontrivial((r["cls"], r["tid"]))
    run.notes["class_histogram"] = hist
    for r in keep[:300:61]:
        run.sample({k: r[k] for k in ("kind", "desc", "params", "n", "cls", "dim_wrapped", "region", "basis", "outliers") if k in r})
    run.assume("dimensionality of the wrapped structure = matid.geometry.get_dimensionality evaluated directly on a wrapped copy (bound to the definition by C09)",
               "region answers of PeriodicFinder are observed, not modelled")
    run.cov["rule"] = "C01 input family (<=150 atoms, non-degenerate cells) with default and varied thresholds / min_coverage; non-trivial = classifications other than Unknown/Atom/Class0D"
    return run.finish()
