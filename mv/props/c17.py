"""C17 - classifier output is consistent with dimensionality and with its own region.
Specs: Classifier.tla (dispatch model, exhaustive), TraceClassifier.tla (V17)."""
import os

from .. import clsrun, structures, tlc
from ..common import MachineryError, Run, dump_ndjson, pmap, scratch

VARIANTS = [{}, {"min_coverage": 0.9}, {"cluster_threshold": 2.0}, {"min_coverage": 0.25, "max_cell_size": 8}, {"pos_tol": 0.5, "pos_tol_mode": "absolute"},
            {"min_coverage": 0.97}, {"bond_threshold": 0.5}, {"cluster_threshold": 4.5},
            # the documented `radii` parameter of the classifier: the class must match the dimensionality with THOSE radii
            {"radii": "vdw_covalent"}, {"radii": "vdw_covalent", "cluster_threshold": 2.0}, {"radii": "table:1.6", "cluster_threshold": 2.0},
            # position tolerances given as a float array (relative mode, the default)
            {"pos_tol": "array:0.3,0.75"}]


def run(tier):
    run = Run("C17", tier, "model_checking")
    d = scratch("c17")
    res = tlc.run("Classifier.tla", "Classifier_mc.cfg")
    if res.violated:
        raise MachineryError("Classifier.tla design model violates %s" % res.violated)
    run.add_model(res, "Classifier_mc: every (dimensionality, atoms, region answer, min_coverage) for <= 4 atoms")
    fam = [x for x in structures.c01_family(tier) if x[0] != "degen"]
    jobs = []
    for k, (kind, desc) in enumerate(fam):
        vs = [VARIANTS[k % len(VARIANTS)]] if tier == "quick" else [VARIANTS[0], VARIANTS[1 + k % (len(VARIANTS) - 1)]]
        for p in vs:
            jobs.append((kind, desc, p, {"rigid": k % 2 == 0}))
    # sparse, defective lattices whose connectivity relies on long links (thresholds above the default matter)
    for i, a0 in enumerate([5.8, 6.4, 7.0]):
        for j, pbc in enumerate([(True, True, True), (True, True, False)]):
            jobs.append(("crystallite", {"el": "Cu", "lattice": "sc", "a": a0, "reps": (2, 2, 2), "pbc": pbc, "vacancies": 1 + j, "noise": 0.1, "i": 300 + i * 2 + j},
                         {"cluster_threshold": 4.5}, {"rigid": False}))
    # entirely non-periodic structures without any cell
    jobs += [("gas", {"n": n, "cell": "orthogonal", "pbc": (False, False, False), "L": 6.0, "nocell": True, "i": 900 + n}, {}, {}) for n in (1, 2, 7)]
    recs = pmap(clsrun.execute_c17, jobs, chunksize=2)
    keep, skipped = [], {}
    for r in recs:
        if "skip" in r:
            skipped[r["skip"]] = skipped.get(r["skip"], 0) + 1
            continue
        r["tid"] = len(keep) + 1
        keep.append(r)
    run.notes["skipped"] = skipped
    run.count(len(keep))
    tp = os.path.join(d, "cls.ndjson")
    dump_ndjson(tp, keep)
    tres = tlc.run("TraceClassifier.tla", "TraceClassifier.cfg", env={"TRACE_FILE": tp, "MODE": "C17"})
    if tres.distinct != 2 * len(keep):
        raise MachineryError("TraceClassifier consumed %d of %d records" % (tres.distinct // 2, len(keep)))
    run.add_model(tres, "TraceClassifier(C17): %d classifications" % len(keep))
    run.traces(len(keep))
    clsrun.region_layer(run, keep, d, lambda r: -1)
    # the dimensionality reference is itself validated against the definition (Dimensionality.tla) at the classifier's threshold
    dr = []
    for r in keep:
        if r.get("dimref"):
            x = dict(r["dimref"], tid=len(dr) + 1, src=r["tid"], cfg=str(r["desc"]))
            dr.append(x)
    if dr:
        tp2 = os.path.join(d, "dimref.ndjson")
        dump_ndjson(tp2, dr)
        dres = tlc.run("TraceDim.tla", "TraceDim.cfg", env={"TRACE_FILE": tp2}, timeout=1800)
        if dres.distinct != 2 * len(dr):
            raise MachineryError("TraceDim consumed %d of %d records" % (dres.distinct // 2, len(dr)))
        run.add_model(dres, "TraceDim: dimensionality reference of %d classified structures vs. the definition" % len(dr))
        for tid, clause in dres.printed("FAIL"):
            r = keep[dr[tid - 1]["src"] - 1]
            run.violation("C17 clause=DimensionalityIsTheDefinition(%s) kind=%s desc=%s params=%s" % (clause, r["kind"], sorted(r["desc"].items()), sorted(r["params"].items())),
                          "get_dimensionality at the classifier's threshold disagrees with the definition (%s): dim=%s" % (clause, dr[tid - 1]["dim"]), {"kind": r["kind"], "desc": r["desc"], "params": r["params"]})
        run.notes["dimension_references_validated"] = len(dr)
    for tid, clause in tres.printed("FAIL"):
        r = keep[tid - 1]
        if clause.startswith("DRIFT"):
            run.model_drift("%s on %s %s: class %s, dim %s, region %s" % (clause, r["kind"], r["desc"], r["cls"], r["dim_wrapped"], r["region"]))
            continue
        run.violation("C17 clause=%s kind=%s desc=%s params=%s" % (clause, r["kind"], sorted(r["desc"].items()), sorted(r["params"].items())),
                      "%s: class=%s dim(wrapped)=%s error=%r on %s %s" % (clause, r["cls"], r.get("dim_wrapped"), r["error"], r["kind"], r["desc"]), r)
    hist = {}
    for r in keep:
        hist[r["cls"]] = hist.get(r["cls"], 0) + 1
        if r["cls"] in ("Surface", "Material2D", "Class2D", "Class1D", "Class3D"):
            run.nontrivial((r["cls"], r["tid"]))
    run.notes["class_histogram"] = hist
    for r in keep[:300:61]:
        run.sample({k: r[k] for k in ("kind", "desc", "params", "n", "cls", "dim_wrapped", "region", "basis", "outliers") if k in r})
    run.assume("dimensionality of the wrapped structure = matid.geometry.get_dimensionality evaluated directly on a wrapped copy (bound to the definition by C09)",
               "region answers of PeriodicFinder are observed, not modelled")
    run.cov["rule"] = "C01 input family (<=150 atoms, non-degenerate cells) with default and varied thresholds / min_coverage; non-trivial = classifications other than Unknown/Atom/Class0D"
    return run.finish()
