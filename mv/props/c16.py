"""C16 - periodic neighbour search and position matching are complete and exact.
Specs: Lattice.tla, CellTrace.tla (extend / query / match events)."""
import os

import numpy as np

from .. import tlc, zworld
from ..common import MachineryError, Run, dump_ndjson, pmap, rng_for, scratch

R2 = [1, 5, 9, 13, 19, 33]  # 2*r^2 (odd: no ties)


def configs(tier):
    out = []
    per = {"quick": 3, "thorough": 16}[tier]
    names = list(zworld.CELLS)
    for ci, name in enumerate(names):
        for mult in (1, 2):
            cell = (np.array(zworld.CELLS[name]) * mult).tolist()
            pts = zworld.inside_points(cell)
            for pi, pbc in enumerate(zworld.PBCS):
                for k in range(per):
                    rng = rng_for("c16cfg", name, mult, pbc, k)
                    n = int(rng.integers(1, 4)) if k < 2 else int(rng.integers(1, 13))
                    n = min(n, len(pts))
                    idx = rng.choice(len(pts), n, replace=False)
                    e = R2[(ci + pi + k) % len(R2)] * mult * mult
                    c = R2[(ci + 2 * pi + 3 * k + 1) % len(R2)] * mult * mult
                    e += 0 if e % 2 else 1
                    c += 0 if c % 2 else 1
                    if k == 0:
                        # unrotated, unscaled frame (exact in floating point): integer extension / cutoff / tolerance 1..3 put lattice
                        # points EXACTLY at the limit; "within" includes them
                        e = 2 * (1 + (ci + pi) % 3) ** 2 * mult * mult
                        c = 2 * (1 + (ci + 2 * pi + 1) % 3) ** 2 * mult * mult
                    pos_k = [list(pts[i]) for i in idx]
                    outside = 0
                    if k % 3 == 2 and mult == 2:
                        # some atoms stored slightly outside the cell (by one lattice-point step, at most 0.2 in fractional
                        # coordinates): the images are still "original + offset.cell" of the atom as stored
                        inv = np.linalg.inv(np.array(cell, dtype=float))
                        for a_ in range(len(pos_k)):
                            if rng.random() < 0.5:
                                q_ = (np.array(pos_k[a_]) + rng.choice([-1, 1]) * np.eye(3, dtype=int)[int(rng.integers(3))])
                                f_ = q_ @ inv
                                if (np.any(f_ < -1e-9) or np.any(f_ > 1 - 1e-9)) and np.all(f_ > -0.2) and np.all(f_ < 1.2) \
                                        and list(q_) not in pos_k:
                                    pos_k[a_] = [int(x) for x in q_]
                                    outside += 1
                    out.append({"cellname": name, "mult": mult, "cell": cell, "pbc": list(pbc), "pos": pos_k, "outside": outside,
                                "z": [int(z) for z in rng.choice([6, 8], n)], "ext2x2": int(e), "c2x2": int(c), "k": k,
                                "grid": pts if len(pts) <= 40 else [pts[i] for i in rng.choice(len(pts), 40, replace=False)]})
    # degenerate cells (zero non-periodic vectors) for the extended system alone
    for i, (zero, pbc) in enumerate([((2,), (True, True, False)), ((1, 2), (True, False, False)), ((0, 1, 2), (False, False, False)),
                                     ((0,), (False, True, True)), ((1,), (True, False, True))]):
        for k in range(per):
            rng = rng_for("c16degen", i, k)
            cell = np.array(zworld.CELLS[["cubic3", "triclinic", "sheared"][k % 3]])
            for a in zero:
                cell[a] = 0
            n = int(rng.integers(1, 6))
            # atoms: fractional coordinates inside the cell along the non-zero vectors, a small integer offset along the
            # zero (non-periodic) directions; "the cell" is the segment / parallelogram spanned by the non-zero vectors
            nz = [a for a in range(3) if a not in zero]
            base = np.array(zworld.CELLS[["cubic3", "triclinic", "sheared"][k % 3]])
            full = base.copy()
            for a in zero:
                full[a] = 0
            pts = []
            if nz:
                ref = base.copy()
                inside = zworld.inside_points(ref.tolist())
                # lattice points of the full cell that are combinations of the kept vectors only
                inv = np.linalg.inv(ref.astype(float))
                for p_ in inside:
                    f = np.array(p_) @ inv
                    if all(abs(f[a]) < 1e-9 for a in zero):
                        pts.append(p_)
            if not pts:
                pts = [[0, 0, 0]]
            grid_cell = [list(map(int, p_)) for p_ in pts]
            pos = []
            for _ in range(n):
                p_ = np.array(pts[int(rng.integers(len(pts)))])
                # offset orthogonal to the kept vectors (the atom stays above/below the cell, not beside it)
                if len(nz) == 2:
                    orth = np.cross(base[nz[0]], base[nz[1]])
                elif len(nz) == 1:
                    v = base[nz[0]]
                    orth = np.array([-v[1], v[0], 0]) if (v[0] or v[1]) else np.array([0, -v[2], v[1]])
                else:
                    orth = np.zeros(3, dtype=int)
                g_ = int(np.gcd.reduce(np.abs(orth))) if orth.any() else 1
                off = int(rng.integers(0, 2)) * (orth // max(g_, 1))
                pos.append((p_ + off).tolist())
            pos = [list(p_) for p_ in {tuple(p_) for p_ in pos}]
            out.append({"cellname": "degenerate%d" % i, "mult": 1, "cell": cell.tolist(), "pbc": list(pbc), "pos": pos,
                        "z": [6] * len(pos), "ext2x2": R2[(i + k) % len(R2)], "c2x2": 5, "k": k, "grid": grid_cell, "degenerate": True})
    return out


def heights(cell, pbc):
    C = np.array(cell, dtype=float)
    hs = []
    for i in range(3):
        if not pbc[i]:
            continue
        others = [C[j] for j in range(3) if j != i and np.any(C[j])]
        v = C[i].copy()
        # component of a_i orthogonal to the other non-zero vectors
        Q = []
        for o in others:
            w = o.copy()
            for q in Q:
                w -= (w @ q) * q
            if np.linalg.norm(w) > 1e-9:
                Q.append(w / np.linalg.norm(w))
        for q in Q:
            v -= (v @ q) * q
        hs.append(np.linalg.norm(v))
    return hs


def execute(cfg):
    import matid.geometry
    from ase import Atoms

    rng = rng_for("c16run", cfg["cellname"], cfg["mult"], cfg["pbc"], cfg["pos"], cfg["k"])
    fr = zworld.Frame(rng, rotate=cfg["k"] != 0)
    cell, pbc, pos, z = cfg["cell"], cfg["pbc"], cfg["pos"], cfg["z"]
    n = len(pos)
    P, C = fr.to_code(pos), fr.to_code(cell)
    ext, cut = fr.length(cfg["ext2x2"]), fr.length(cfg["c2x2"])
    hs = heights(cell, pbc)
    rmax = max(np.sqrt(cfg["ext2x2"] / 2.0), np.sqrt(cfg["c2x2"] / 2.0))
    Kf = int(np.ceil(rmax / min(hs))) + 1 if hs else 0
    if (2 * Kf + 1) ** sum(pbc) * n * len(cfg["grid"]) > 300000:
        return [{"skip": "box too large"}]
    base = {"cell": cell, "pbc": pbc, "pos": pos, "z": z, "grid": cfg["grid"], "Kf": Kf,
            "cfg": dict({k: cfg[k] for k in ("cellname", "mult", "k")}, outside=cfg.get("outside", 0)), "ext2x2": cfg["ext2x2"], "c2x2": cfg["c2x2"]}
    recs = []
    at = Atoms(numbers=z, positions=P, cell=C, pbc=pbc)
    # ---- extended system
    r = dict(base, ev="extend")
    try:
        es = matid.geometry.get_extended_system(at, ext)
        f2 = zworld.Frame.__new__(zworld.Frame)
        f2.__dict__.update(fr.__dict__)
        f2.resid = 0.0
        pp = f2.back_vec(np.asarray(es.positions))
        ff = f2.back_int(np.asarray(es.factors))
        r["images"] = [{"idx": int(i) + 1, "fac": ff[k].tolist(), "pos": pp[k].tolist(), "z": int(es.atomic_numbers[k])}
                       for k, i in enumerate(np.asarray(es.indices))]
        r["exact"] = f2.exact
    except Exception as e:
        r["error"] = "%s: %s" % (type(e).__name__, e)
    recs.append(r)
    if cfg.get("degenerate"):
        return recs
    # ---- neighbour queries at points of the cell
    try:
        cl = matid.geometry.get_cell_list(P, C, np.array(pbc), ext, cut)
    except Exception as e:
        recs.append(dict(base, ev="query", error="%s: %s" % (type(e).__name__, e)))
        return recs
    qs = [cfg["grid"][i] for i in rng.choice(len(cfg["grid"]), min(3, len(cfg["grid"])), replace=False)]
    for q in qs:
        r = dict(base, ev="query", q=q)
        f2 = zworld.Frame.__new__(zworld.Frame)
        f2.__dict__.update(fr.__dict__)
        f2.resid = 0.0
        Q = fr.to_code([q])[0]
        try:
            res = cl.get_neighbours_for_position(float(Q[0]), float(Q[1]), float(Q[2]))
            m = len(res.indices_original)
            dd = f2.back_vec(np.asarray(res.displacements).reshape(m, 3))
            fa = f2.back_int(np.asarray(res.factors).reshape(m, 3))
            d2 = f2.back_d2(np.asarray(res.distances))
            d2b = np.rint(np.asarray(res.distances_squared) / fr.s ** 2)
            r["found"] = [{"idx": int(res.indices_original[k]) + 1, "fac": fa[k].tolist(), "disp": dd[k].tolist(), "dist2": int(d2[k])}
                          for k in range(m)]
            r["exact"] = bool(f2.exact and np.array_equal(d2b, d2))
        except Exception as e:
            r["error"] = "%s: %s" % (type(e).__name__, e)
        recs.append(r)
    # ---- matching (extension and cutoff at least the tolerance, as PeriodicFinder sets it up)
    tol2x2 = min(cfg["ext2x2"], cfg["c2x2"])
    if tol2x2 % 2 == 0:
        # no exact ties for the matching tolerance: get_matches_simple wraps the searched position first (floating point), so a
        # position exactly at the tolerance is decided by rounding - not something the property can mean
        tol2x2 -= 1
    tol = fr.length(tol2x2)
    red, U = zworld.reduce_lattice(cell, pbc)
    for q in qs:
        for zq in (6, 8):
            d2max = max(int(np.dot(np.subtract(q, a), np.subtract(q, a))) for a in pos)
            K = zworld.safe_k(red, max(d2max, 1))
            if K is None or (2 * K + 1) ** 3 * n > 60000:
                continue
            Q = fr.to_code([q])
            r = dict(base, ev="match", q=q, zq=zq, tol2x2=int(tol2x2), red=red, U=U, K=K)
            f2 = zworld.Frame.__new__(zworld.Frame)
            f2.__dict__.update(fr.__dict__)
            f2.resid = 0.0
            try:
                matches, subs, vac, copies = matid.geometry.get_matches(at, cl, Q, [zq], tol)
                if matches[0] is not None:
                    r["res"] = {"kind": "match", "idx": int(matches[0]) + 1, "fac": f2.back_int(copies[0]).tolist()}
                elif subs[0] is not None:
                    r["res"] = {"kind": "subst", "idx": int(subs[0].index) + 1, "fac": f2.back_int(copies[0]).tolist()}
                else:
                    # neither a match nor a substitution: it must be reported as (exactly one) vacancy at the searched position
                    vac_ok = len(vac) == 1 and bool(np.allclose(np.asarray(vac[0].position, dtype=float), np.asarray(Q[0], dtype=float), atol=1e-9))
                    r["res"] = {"kind": "vacancy" if vac_ok else "nothing", "idx": 0, "fac": [0, 0, 0], "n_vac": len(vac)}
                r["exact"] = f2.exact
            except Exception as e:
                r["error"] = "%s: %s" % (type(e).__name__, e)
            recs.append(r)
            r2 = dict(base, ev="match_simple", q=q, zq=zq, tol2x2=int(tol2x2), red=red, U=U, K=K)
            try:
                ms, disps = matid.geometry.get_matches_simple(at, cl, Q.copy(), [zq], tol)
                r2["res"] = {"kind": "none", "idx": 0} if ms[0] is None else {"kind": "match", "idx": int(ms[0]) + 1}
            except Exception as e:
                r2["error"] = "%s: %s" % (type(e).__name__, e)
            recs.append(r2)
    return recs


def run(tier):
    run = Run("C16", tier, "model_checking")
    d = scratch("c16")
    mres = tlc.run("LatticeModel.tla", "LatticeModel.cfg" if tier == "quick" else "LatticeModel_full.cfg", timeout=2400)
    if mres.violated:
        raise MachineryError("LatticeModel: theorem %s of the exact minimum-image definitions fails" % mres.violated)
    bres = tlc.run("CellBins.tla", "CellBins.cfg")
    if bres.violated:
        raise MachineryError("CellBins: the binning rule of the model violates %s" % bres.violated)
    run.add_model(bres, "CellBins: bin count / width rule of celllist.cpp, every range <= 24, 9 cutoffs, all point pairs: BinsSuffice, BinInRange")
    for vcfg in ("CellBins_round.cfg", "CellBins_ceil.cfg"):
        vres = tlc.run("CellBins.tla", vcfg, must_pass=False)
        if vres.violated != "BinsSuffice":
            raise MachineryError("vacuity guard: the narrowed-bin variant %s should violate BinsSuffice" % vcfg)
    run.notes["cellbins_variants_refuted"] = ["round_nearest_no_clamp", "ceil_no_clamp"]
    run.add_model(mres, "LatticeModel: MicSymmetric, SafeKSuffices, BasisIndependent, MicBelowDirect, ShiftInvariant on 5 cells x 8 pbc x 4 basis changes x difference vectors")
    cfgs = configs(tier)
    keep, skipped = [], 0
    for group in pmap(execute, cfgs, chunksize=8):
        for r in group:
            if "skip" in r:
                skipped += 1
                continue
            if "error" in r:
                run.violation("C16 %s raises cell=%s pbc=%s" % (r["ev"], r["cfg"]["cellname"], r["pbc"]),
                              "%s raised %s" % (r["ev"], r["error"]), r)
                continue
            r["tid"] = len(keep) + 1
            keep.append(r)
    run.notes["skipped_box_too_large"] = skipped
    run.count(len(keep))
    tp = os.path.join(d, "cell.ndjson")
    dump_ndjson(tp, keep)
    res = tlc.run("CellTrace.tla", "CellTrace.cfg", env={"TRACE_FILE": tp}, timeout=3000)
    if res.distinct != 2 * len(keep):
        raise MachineryError("CellTrace consumed %d of %d records" % (res.distinct // 2, len(keep)))
    run.add_model(res, "CellTrace(extend/query/match): %d recorded calls" % len(keep))
    run.traces(len(keep))
    for tid, clause in res.printed("FAIL"):
        r = keep[tid - 1]
        if clause.startswith("HARNESS"):
            raise MachineryError("harness setup rejected by the spec (%s) on %s" % (clause, r["cfg"]))
        key = "C16 %s clause=%s cell=%s x%d pbc=%s ext2x2=%s c2x2=%s pos=%s q=%s" % (
            r["ev"], clause, r["cfg"]["cellname"], r["cfg"]["mult"], r["pbc"], r["ext2x2"], r["c2x2"], r["pos"], r.get("q"))
        run.violation(key, "%s (%s) on cell %s pbc %s" % (clause, r["ev"], r["cell"], r["pbc"]),
                      {k: v for k, v in r.items() if k != "grid"})
    by = {}
    for r in keep:
        by[r["ev"]] = by.get(r["ev"], 0) + 1
        if r["ev"] == "extend" and len(r["images"]) > len(r["pos"]):
            run.nontrivial(("ext", r["tid"]))
        if r["ev"] == "query" and any(any(x["fac"]) for x in r["found"]):
            run.nontrivial(("query-image", r["tid"]))
        if r["ev"] == "match" and r["res"]["kind"] != "vacancy":
            run.nontrivial(("match", r["tid"]))
    run.notes["events"] = by
    for ev in ("extend", "query", "match", "match_simple"):
        for r in keep:
            if r["ev"] == ev:
                run.sample({k: v for k, v in r.items() if k not in ("grid", "images") or len(str(v)) < 400})
                break
    run.assume("'within the extension distance of the cell' is checked against the lattice points of the cell (1/g grid): exact for what a query at a grid point can ask, slightly weaker than the continuous statement",
               "matching is exercised with extension and cutoff >= tolerance (as PeriodicFinder sets the cell list up)",
               "rational world only (integer cells/positions under arbitrary rotation and scale)")
    run.cov["rule"] = ("10 integer cells x {1,2} x 8 pbc x extension/cutoff from 6 half-integer squares in both orders x 1-12 atoms; "
                       "query and match points on lattice points of the cell; degenerate cells for the extended system; "
                       "non-trivial = extension added images / query returned an image with non-zero factors / a match was found")
    return run.finish()
