"""C19 - radii presets and custom radii.  Spec: Radii.tla / TraceRadii.tla."""
import json
import os

import numpy as np

from .. import tlc
from ..common import Run, dump_ndjson, rng_for, scratch

PRESETS = ["covalent", "vdw", "vdw_covalent"]
U = 10000  # 1e-4 Angstrom


def enc(v):
    return -1 if (v is None or np.isnan(v)) else int(round(float(v) * U))


def export_ref(path):
    from ase.data import covalent_radii
    from ase.data.vdw_alvarez import vdw_radii

    ref = {"covalent": [enc(covalent_radii[z]) for z in range(1, 104)],
           "vdw": [enc(vdw_radii[z]) for z in range(1, 104)]}
    json.dump(ref, open(path, "w"))
    return ref


def _enc_dim(res):
    dim, clusters = res
    return {"dim": -1 if dim is None else int(dim), "clusters": sorted(sorted(int(i) for i in c) for c in clusters)}


def _enc_sbc(clusters):
    return sorted(sorted(int(i) for i in c.indices) for c in clusters)


def _random_structure(rng, with_missing_vdw):
    from ase import Atoms

    have = [z for z in range(1, 104) if z not in (61, 84, 85, 86, 87, 88, 100, 101, 102, 103)]
    missing = [61, 84, 85, 86, 87, 88, 100, 101, 102, 103]
    n = int(rng.integers(3, 12))
    pool = list(rng.choice(have, 2)) + (list(rng.choice(missing, 1)) if with_missing_vdw else [])
    zs = rng.choice(pool, n)
    L = rng.uniform(4.0, 9.0)
    cell = np.diag(rng.uniform(0.7, 1.3, 3) * L) + rng.normal(scale=0.4, size=(3, 3))
    pos = rng.uniform(0, 1, (n, 3)) @ cell
    pbc = rng.integers(0, 2, 3).astype(bool)
    return Atoms(numbers=zs, positions=pos, cell=cell, pbc=pbc)


def _sized_structure(rng, n):
    """n atoms of two or three species (one without a vdW radius) on a jittered grid: atom counts that coincide with the
    lengths of the element tables (a per-atom array must never be mistaken for a per-element table)"""
    from ase import Atoms

    pool = [int(rng.choice([6, 14, 29, 82])), int(rng.choice([8, 16, 34])), int(rng.choice([84, 86, 61]))]
    zs = rng.choice(pool, n)
    m = int(np.ceil(n ** (1 / 3)))
    grid = np.array([[i, j, k] for i in range(m) for j in range(m) for k in range(m)], dtype=float)[:n]
    a = float(rng.uniform(2.2, 3.4))
    pos = grid * a + rng.normal(scale=0.15, size=(n, 3))
    pbc = rng.integers(0, 2, 3).astype(bool)
    return Atoms(numbers=zs, positions=pos, cell=np.eye(3) * (m * a), pbc=pbc)


def reference_radii(ref, preset, zs):
    """the documented resolution, computed by the harness from the documented tables (TLC re-derives it: ArrayIsResolved)"""
    out = []
    for z in zs:
        cov, vdw = ref["covalent"][z - 1], ref["vdw"][z - 1]
        v = cov if preset == "covalent" else vdw if preset == "vdw" else (vdw if vdw >= 0 else cov)
        out.append(v)
    return out


def run(tier):
    import matid.geometry
    from matid.clustering import SBC

    run = Run("C19", tier, "model_checking")
    d = scratch("c19")
    refp = os.path.join(d, "radii.json")
    ref = export_ref(refp)
    env = {"RADII_REF": refp}

    # --- model layer: exhaustive over 3 presets x 103 elements
    res = tlc.run("Radii.tla", "Radii_mc.cfg", env=env, coverage=True)
    if res.violated:
        # a statement about the reference tables themselves, not about matid
        raise tlc.MachineryError("reference radii tables violate %s" % res.violated)
    run.add_model(res, "Radii_mc: presets x Z=1..103, FallbackFinitePositive/PrefersVdw/CovalentTotal")
    run.cov["exhaustive"] = True

    # --- binding: record executions of the real code
    recs = []

    def add(r):
        r["tid"] = len(recs) + 1
        recs.append(r)

    # (1) every (preset, Z): single-element call and inside a longer array
    all_z = np.arange(1, 104)
    for p in PRESETS:
        whole = matid.geometry.get_radii(p, all_z)
        for z in range(1, 104):
            single = matid.geometry.get_radii(p, np.array([z]))[0]
            add({"ev": "resolve", "preset": p, "z": z, "val": enc(single), "how": "single"})
            add({"ev": "resolve", "preset": p, "z": z, "val": enc(whole[z - 1]), "how": "array"})
            run.count(2)
            run.nontrivial(("resolve", p, z))
    # (2) custom arrays come back unchanged (values k/1000 are exact in the 1e-4 encoding)
    n_custom = 20 if tier == "quick" else 200
    for k in range(n_custom):
        rng = rng_for("c19-custom", k)
        n = int(rng.integers(1, 30))
        arr = rng.integers(100, 3000, n) / 1000.0
        zs = rng.integers(1, 104, n)
        before = arr.copy()
        out = matid.geometry.get_radii(arr, zs)
        add({"ev": "custom", "inp": [enc(v) for v in before], "out": [enc(v) for v in np.asarray(out)],
             "same_object_mutated": bool(not np.array_equal(arr, before))})
        run.count()
    # (3) preset == resolved array for dimensionality and clustering
    n_eq = 24 if tier == "quick" else 240
    skipped_nan = 0
    from .. import structures

    crystalline = [x for x in structures.c01_family(tier) if x[0] in ("slabads", "rsstack", "two", "crystallite", "stack")]
    # inputs where the radii decide which atoms stay in a cluster come first (lifted same-species adatoms, shared-anion stacks)
    crystalline.sort(key=lambda x: 0 if (x[0] == "slabads" and x[1].get("ads") == x[1]["el"]) else 1 if x[0] == "rsstack" else 2)
    crystalline = crystalline[0::2] + crystalline[1::2]
    from ase.data import covalent_radii as _cov
    from ase.data.vdw_alvarez import vdw_radii as _vdw

    table_sizes = sorted({103, 104, 118, 119, 120, len(_cov), len(_vdw), len(_cov) - 1, len(_vdw) - 1})
    inputs = []
    for k in range(n_eq):
        rng = rng_for("c19-equiv", k)
        if k % 2 == 0 and crystalline:
            kind, desc = crystalline[(k // 2) % len(crystalline)]
            sysm, _ = structures.build(kind, desc)
            label = {"kind": kind, "desc": desc}
        else:
            sysm = _random_structure(rng, with_missing_vdw=(k % 4 == 1))
            label = {"kind": "random", "k": k}
        inputs.append((k, rng, sysm, label, len(sysm) <= 60, k % 2 == 0 or k % 3 == 0))
    for n in table_sizes:
        rng = rng_for("c19-sized", n)
        inputs.append((1000 + n, rng, _sized_structure(rng, n), {"kind": "sized", "n": n}, True, False))
    for k, rng, sysm, label, do_dim, do_sbc in inputs:
        zs = sysm.get_atomic_numbers()
        shared = SBC()  # one clustering object reused across the presets of this structure (history must not matter)
        for p in ["vdw", "vdw_covalent", "covalent"]:
            code_radii = matid.geometry.get_radii(p, zs)
            # the preset resolved for this structure's own atoms in one call: judged per element against the documented table
            add({"ev": "resolve_many", "preset": p, "zs": [int(z) for z in zs], "vals": [enc(v) for v in code_radii], "k": k,
                 "input": label})
            run.count()
            ref_enc = reference_radii(ref, p, [int(z) for z in zs])
            if min(ref_enc) < 0:
                skipped_nan += 1  # the documented preset itself has no value for an atom here (plain "vdw")
                continue
            ref_radii = np.array(ref_enc, dtype=float) / U
            thr = float(rng.choice([0.3, 0.65, 1.0, 2.0, 3.5]))
            if do_dim:
                try:
                    if k % 2:
                        # the documented signature (system, cluster_threshold, dist_matrix_radii_mic_1x, return_clusters, radii), by position
                        a = _enc_dim(matid.geometry.get_dimensionality(sysm.copy(), thr, None, True, p))
                        b = _enc_dim(matid.geometry.get_dimensionality(sysm.copy(), thr, None, True, ref_radii.copy()))
                    else:
                        a = _enc_dim(matid.geometry.get_dimensionality(sysm.copy(), thr, radii=p, return_clusters=True))
                        b = _enc_dim(matid.geometry.get_dimensionality(sysm.copy(), thr, radii=ref_radii.copy(), return_clusters=True))
                except Exception as e:
                    a, b = {"dim": -9, "clusters": []}, {"dim": -8, "clusters": [], "raised": "%s: %s" % (type(e).__name__, str(e)[:120])}
                add({"ev": "equiv", "what": "dimensionality", "preset": p, "zs": [int(z) for z in zs],
                     "array": ref_enc, "with_preset": a, "with_array": b, "k": k, "thr": thr, "input": label})
                run.count()
                run.nontrivial(("equiv-dim", k, p))
            if do_sbc:
                bt = float(rng.choice([0.3, 0.65]))
                try:
                    ca = _enc_sbc(shared.get_clusters(sysm.copy(), radii=p, bond_threshold=bt))
                    cb = _enc_sbc(SBC().get_clusters(sysm.copy(), radii=ref_radii.copy(), bond_threshold=bt))
                except ValueError:
                    continue
                add({"ev": "equiv", "what": "sbc", "preset": p, "zs": [int(z) for z in zs],
                     "array": ref_enc, "with_preset": ca, "with_array": cb, "k": k, "input": label})
                run.count()
                if ca:
                    run.nontrivial(("equiv-sbc", k, p))
    run.notes["equiv_skipped_because_code_radii_nan"] = skipped_nan

    tp = os.path.join(d, "trace.ndjson")
    dump_ndjson(tp, recs)
    env["TRACE_FILE"] = tp
    tres = tlc.run("TraceRadii.tla", "TraceRadii.cfg", env=env)
    if tres.distinct != 2 * len(recs):
        raise tlc.MachineryError("trace validation consumed %d of %d records" % (tres.distinct // 2, len(recs)))
    run.add_model(tres, "TraceRadii: %d recorded calls" % len(recs))
    run.traces(len(recs))
    for tid, clause in tres.printed("FAIL"):
        r = recs[tid - 1]
        if clause.startswith("HARNESS"):
            raise tlc.MachineryError("harness inconsistency %s on %s" % (clause, r))
        if r["ev"] == "resolve":
            key = "resolve preset=%s z=%d" % (r["preset"], r["z"])
            what = "%s: get_radii(%r, Z=%d) = %s (1e-4 A), documented table gives otherwise" % (
                clause, r["preset"], r["z"], r["val"])
        elif r["ev"] == "resolve_many":
            key = "resolve-many preset=%s" % r["preset"]
            what = "%s: get_radii(%r, <the %d atoms of %s>) differs from the documented per-element table" % (
                clause, r["preset"], len(r["zs"]), r["input"])
        elif r["ev"] == "custom":
            key, what = "custom-array", "%s: custom radii array altered by get_radii" % clause
        else:
            key = "equiv %s preset=%s" % (r["what"], r["preset"])
            what = "%s: %s with preset %r differs from the same numbers as array (sample k=%d)" % (
                clause, r["what"], r["preset"], r["k"])
        run.violation(key, what, r)
    for r in recs[:2] + [x for x in recs if x["ev"] == "equiv"][:2]:
        run.sample(r)
    run.assume("documented tables = ase.data.covalent_radii and ase.data.vdw_alvarez.vdw_radii (the arrays the docs cite)",
               "equivalence runs are skipped (and counted) when the documented preset has no value for an atom (plain vdw)")
    run.cov["rule"] = ("every (preset, Z<=103) resolved through the real get_radii twice (single / in array); random custom arrays; "
                       "random 3-11 atom structures with and without vdW-less elements for preset-vs-array equivalence; "
                       "non-trivial = distinct (preset,Z) pairs and distinct (structure,preset) equivalence runs")
    return run.finish()
