"""C04 - a cluster's prototype cell identifies the material it was cut from.  Spec: TraceProto.tla;
the composition is only as strong as the normal form (C06, GroundState.tla) and the material id (C11/C06)."""
import os
from collections import Counter

import numpy as np

from .. import bestbasis, crystalfam, structures, tlc
from ..common import MachineryError, Run, dump_ndjson, pmap, scratch
from ..common import rng_pinned as rng_for


def analyse(cell, tol):
    from matid.symmetry import SymmetryAnalyzer

    an = SymmetryAnalyzer(cell, symmetry_tol=tol)
    sets = an.get_wyckoff_sets_conventional(return_parameters=False)
    c = Counter((str(s.wyckoff_letter), int(s.atomic_number), int(s.multiplicity)) for s in sets)
    return {"id": str(an.get_material_id()), "number": int(an.get_space_group_number()),
            "occ": [[k[0], k[1], k[2], v] for k, v in sorted(c.items())]}


def descriptors(tier):
    out = [d for d in crystalfam.c02_descriptors(tier) if d.get("noise", 0) <= 0.02]
    for mi, name in enumerate(["graphene", "BN", "MoS2-2H", "MoS2-1T", "WSe2-2H"]):
        for size in ((4,) if tier == "quick" else (3, 4, 5, 6)):
            out.append({"name": name, "form": "mono", "size": size, "noise": 0, "i": 7000 + mi * 10 + size})
    return out


def execute(job):
    from matid.clustering import SBC

    desc, stream = job
    rng = rng_for("c04", sorted((k, str(v)) for k, v in desc.items()), stream)
    if desc["form"] == "mono":
        atoms = crystalfam.monolayer(desc["name"], desc["size"])
        src = crystalfam.monolayer(desc["name"], 1)
        src.set_pbc([True, True, False])
        exp_npbc = 2
    else:
        atoms, dim, why = crystalfam.build_c02(desc)
        if atoms is None:
            return {"skip": why}
        src = crystalfam.unit(desc["name"])[1]
        exp_npbc = 3
    tol = 0.5 if desc.get("noise", 0) > 0 else 0.1
    fz = Counter(int(z) for z in src.numbers)
    g = np.gcd.reduce(list(fz.values()))
    formula = sorted((z, c // g) for z, c in fz.items())
    atoms, _ = structures.rigid(atoms, rng)
    seed = int(rng.integers(0, 1000))
    rec = {"desc": {k: (list(v) if isinstance(v, tuple) else v) for k, v in desc.items()}, "stream": stream, "n": len(atoms), "seed": seed,
           "error": "", "n_clusters": 0, "has_cell": False, "cell_npbc": -1, "expected_npbc": exp_npbc, "cell_natoms": 0,
           "formula": [c for _, c in formula], "formula_size": int(sum(c for _, c in formula)), "cell_counts": [0] * len(formula),
           "proto": {"id": "", "number": 0, "occ": []}, "source": {"id": "", "number": 0, "occ": []}, "tol": tol}
    try:
        rec["source"] = analyse(src, tol)
        sbc = SBC()
        if stream % 2 == 0:
            # the documented workflow reuses one SBC object: give it a history (another arrangement of the same atoms)
            prev = atoms[rng.permutation(len(atoms))]
            prev.translate(rng.uniform(-2, 2, 3))
            sbc.get_clusters(prev, seed=seed + 1)
        clusters = sbc.get_clusters(atoms, seed=seed)
        rec["n_clusters"] = len(clusters)
        if len(clusters) == 1:
            cell = clusters[0].get_cell()
            rec["has_cell"] = cell is not None
            if cell is not None:
                rec["cell_npbc"] = int(sum(cell.get_pbc()))
                rec["cell_natoms"] = len(cell)
                cz = Counter(int(z) for z in cell.numbers)
                rec["cell_counts"] = [int(cz.get(z, 0)) for z, _ in formula]
                rec["proto"] = analyse(cell, tol)
    except Exception as e:
        rec["error"] = "%s: %s" % (type(e).__name__, str(e)[:160])
    return rec


def run(tier):
    run = Run("C04", tier, "exploration")
    d = scratch("c04")
    jobs = [(dsc, s) for dsc in descriptors(tier) for s in ([0, 1, 2] if tier == "quick" else list(range(8)))]  # stream = rigid motion, SBC seed, history
    recs = pmap(execute, jobs, chunksize=1)
    keep, skipped = [], {}
    for r in recs:
        if "skip" in r:
            skipped[r["skip"]] = skipped.get(r["skip"], 0) + 1
            continue
        r["tid"] = len(keep) + 1
        keep.append(r)
    run.notes["descriptors_skipped_by_precondition"] = skipped
    run.count(len(keep))
    tp = os.path.join(d, "proto.ndjson")
    dump_ndjson(tp, keep)
    res = tlc.run("TraceProto.tla", "TraceProto.cfg", env={"TRACE_FILE": tp})
    if res.distinct != 2 * len(keep):
        raise MachineryError("TraceProto consumed %d of %d records" % (res.distinct // 2, len(keep)))
    run.add_model(res, "TraceProto: %d workflow runs" % len(keep))
    run.traces(len(keep))
    for tid, clause in res.printed("FAIL"):
        r = keep[tid - 1]
        dsc = r["desc"]
        key = "C04 clause=%s %s" % (clause, " ".join("%s=%s" % (k, dsc[k]) for k in sorted(dsc) if k != "i"))
        run.violation(key, "%s: prototype cell -> %s ; source unit cell -> %s (cell atoms %d, pbc %d, clusters %d, error %r)" % (
            clause, r["proto"], r["source"], r["cell_natoms"], r["cell_npbc"], r["n_clusters"], r["error"]), r)
    for r in keep:
        run.nontrivial(tuple(sorted((k, str(v)) for k, v in r["desc"].items())))
    for r in keep[:2] + keep[-1:]:
        run.sample({k: r[k] for k in ("desc", "n", "tol", "cell_natoms", "cell_npbc", "proto", "source")})
    run.assume("source crystal's own unit cell = the primitive cell the generator started from, analysed at the same tolerance (0.1 A unperturbed, 0.5 A rattled)",
               "inputs are those of C02 (noise <= 0.02 A) that pass its precondition, plus monolayer supercells; pinned random parts")
    # growth: the basis selection step of the prototype cell (BestBasis.tla), design model + binding; disagreements are MODEL-DRIFT
    bestbasis.run(run, tier)
    run.cov["rule"] = "C02 crystal families (bulk, slab) with noise <= 0.02 and graphene/BN/MX2 monolayers under rotation/translation/permutation/seed; non-trivial = distinct descriptors"
    return run.finish()
