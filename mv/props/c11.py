"""C11 - 2D materials get a vacuum-, orientation- and labelling-independent normal form.  Spec: TraceLayer.tla;
selection core shared with C06 (GroundState.tla), material id prefix checked through IdDiffersFrom3D."""
import itertools
import os
from collections import Counter

import numpy as np

from .. import crystals, tlc
from ..common import MachineryError, Run, dump_ndjson, pmap, rng_for, scratch

# symmorphic groups compatible with a layer whose normal is c (b for the monoclinic ones)
LAYER_GROUPS = [1, 2, 3, 6, 10, 16, 25, 47, 21, 35, 65, 75, 81, 83, 89, 99, 111, 115, 123, 143, 147, 149, 150, 156, 157, 162, 164,
                168, 174, 175, 177, 183, 187, 189, 191]
MONO_B = {3, 6, 10}
PERMS = list(itertools.permutations(range(3)))


def named(name):
    from ase import Atoms
    from ase.build import mx2

    if name == "graphene":
        a = Atoms("C2", cell=[[2.46, 0, 0], [-1.23, 2.13042, 0], [0, 0, 12]], scaled_positions=[[1 / 3, 2 / 3, .5], [2 / 3, 1 / 3, .5]])
    elif name == "BN":
        a = Atoms("BN", cell=[[2.5, 0, 0], [-1.25, 2.16506, 0], [0, 0, 12]], scaled_positions=[[1 / 3, 2 / 3, .5], [2 / 3, 1 / 3, .5]])
    elif name == "MoS2":
        a = mx2("MoS2", "2H", a=3.18, thickness=3.19, vacuum=6)
    elif name == "TiS2":
        a = mx2("TiS2", "1T", a=3.4, thickness=2.8, vacuum=6)
    elif name.startswith("AA"):
        # two identical flat sub-layers stacked on top of each other (thickness t): any amount of vacuum must give the same answer,
        # in particular a cell of length 2t, where the padded-out translation c/2 would otherwise become a symmetry
        t = 2.8 if name == "AA-CSi" else 3.0
        if name == "AA-CSi":
            a = Atoms("C2Si2", cell=[[3.6, 0, 0], [0, 3.6, 0], [0, 0, 12]],
                      positions=[[0, 0, 6 - t / 2], [0, 0, 6 + t / 2], [1.8, 1.8, 6 - t / 2], [1.8, 1.8, 6 + t / 2]])
        else:
            a = Atoms("B2N2", cell=[[2.5, 0, 0], [-1.25, 2.16506, 0], [0, 0, 12]],
                      scaled_positions=[[1 / 3, 2 / 3, .5 - t / 24], [1 / 3, 2 / 3, .5 + t / 24], [2 / 3, 1 / 3, .5 - t / 24], [2 / 3, 1 / 3, .5 + t / 24]])
    a.set_pbc([True, True, False])
    return a


def gen_layer(sg, k, inplane=False):
    """layer in a symmorphic group: a 3D crystal of the group with a long normal axis and atoms in a thin slice.
    inplane=True (monoclinic groups 3, 6, 10 only): the unique axis b lies IN the plane (rectangular in-plane cell, normal c),
    with in-plane parameters up to 9 A - longer than the vacuum the analysis uses internally."""
    from ase.spacegroup import crystal

    rng = rng_for("layer", sg, k, inplane) if inplane else rng_for("layer", sg, k)  # (the 2D inputs of C08 are pinned through this generator)
    for attempt in range(40):
        a, b = rng.uniform(3.0, 9.0 if inplane else 6.0, 2)
        if abs(a - b) < 0.3:
            b += 0.5
        cn = 14.0
        flat = bool(rng.random() < 0.3)
        n_orb = int(rng.integers(1, 4))
        basis = []
        for _ in range(n_orb):
            x, y = rng.uniform(0.05, 0.45, 2) + np.array([0.0, 0.017])
            dz = 0.0 if flat else float(rng.uniform(-1.4, 1.4)) / cn
            basis.append((x, y, dz) if (sg not in MONO_B or inplane) else (x, dz, y))
        if inplane:
            cp = [a, b, cn, 90, 90, 90]
        elif sg <= 2:
            cp = [a, b, cn, 90, 90, float(rng.uniform(70, 110))]
        elif sg in MONO_B:
            cp = [a, cn, b, 90, float(rng.uniform(97, 115)), 90]
        elif sg <= 74:
            cp = [a, b, cn, 90, 90, 90]
        elif sg <= 142:
            cp = [a, a, cn, 90, 90, 90]
        else:
            cp = [a, a, cn, 90, 90, 120]
        species = list(rng.choice(["C", "Si", "O", "S", "Mo", "N"], n_orb, replace=bool(rng.random() < 0.3)))
        try:
            at = crystal(species, basis, spacegroup=sg, cellpar=cp, onduplicates="replace", symprec=1e-4)
        except Exception:
            continue
        axis = 1 if (sg in MONO_B and not inplane) else 2
        # atoms near 0 and near 1 along the normal belong to one thin slice: centre it
        f = at.get_scaled_positions()
        f[:, axis] = (f[:, axis] + 0.5) % 1.0
        at.set_scaled_positions(f)
        pbc = [True, True, True]
        pbc[axis] = False
        at.set_pbc(pbc)
        if len(at) > 40 or crystals.min_distance(at) < 1.0:
            continue
        th = np.ptp(at.get_scaled_positions(wrap=False)[:, axis]) * cn
        if th > 3.0:
            continue
        return at
    return None


def present(at, rng, j):
    from ase import Atoms

    a = at.copy()
    pbc = a.get_pbc()
    axis = int(np.flatnonzero(~pbc)[0])
    if j > 0:
        # vacuum: rescale the non-periodic vector (atoms keep their cartesian positions)
        c = a.cell[:].copy()
        f = a.get_scaled_positions(wrap=False)[:, axis]
        thick = float(np.ptp(f) * np.linalg.norm(c[axis]))
        if j == 1 and thick >= 2.5:
            c[axis] *= (2.0 * thick + 0.02) / np.linalg.norm(c[axis])      # (almost) exactly as much vacuum as material
        elif j == 2 and thick > 0.5:
            c[axis] *= (thick + 5.0) / np.linalg.norm(c[axis])
        else:
            c[axis] *= float(rng.uniform(0.6, 2.0))
        a.set_cell(c, scale_atoms=False)
        rep = [1, 1, 1]
        for i in range(3):
            if pbc[i]:
                rep[i] = int(rng.integers(1, 3))
        a = a.repeat(rep)
        perm = list(PERMS[(j + int(rng.integers(6))) % 6])
        a = Atoms(numbers=a.numbers, positions=a.positions, cell=a.cell[:][perm], pbc=a.get_pbc()[perm])
        R = crystals.random_rotation(rng)
        a.set_cell(a.cell[:] @ R.T, scale_atoms=False)
        a.set_positions(a.positions @ R.T)
        a.translate(rng.uniform(-4, 4, 3))
        a = a[rng.permutation(len(a))]
    return a


def observe(a, mt, tol=0.05):
    import matid.geometry as g
    from ase.geometry import cell_to_cellpar
    from matid.symmetry import SymmetryAnalyzer

    if tol is None:
        an = SymmetryAnalyzer(a, min_2d_thickness=mt)  # the library's default symmetry tolerance
        tol = 0.05
    elif len(a) % 2:
        an = SymmetryAnalyzer(a, tol, mt)  # documented positional order
    else:
        an = SymmetryAnalyzer(a, symmetry_tol=tol, min_2d_thickness=mt)
    conv = an.get_conventional_system()
    par = cell_to_cellpar(conv.get_cell()[:])
    sets = an.get_wyckoff_sets_conventional(return_parameters=False)
    c = Counter((str(s.wyckoff_letter), int(s.atomic_number), int(s.multiplicity)) for s in sets)
    fr = conv.get_scaled_positions(wrap=False)
    a3 = a.copy()
    a3.set_pbc(True)
    # the layer's atomic extent measured on the INPUT, along the normal of its periodic plane (the input slice is contiguous)
    pb = a.get_pbc()
    u, v = a.cell[:][pb]
    nrm = np.cross(u, v)
    nrm /= np.linalg.norm(nrm)
    extent_in = float(np.ptp(a.positions @ nrm))
    return {"extent_in": int(round(extent_in * 1e4)), "pbc": [bool(x) for x in conv.get_pbc()], "frac": np.rint(fr * 1e6).astype(int).tolist(), "n_conv": len(conv),
            "a_len": int(round(par[0] * 1e4)), "b_len": int(round(par[1] * 1e4)), "c_len": int(round(par[2] * 1e4)),
            "alpha": int(round(par[3] * 1e4)), "beta": int(round(par[4] * 1e4)), "gamma": int(round(par[5] * 1e4)),
            "extent": int(round(float(np.ptp(fr[:, 2]) * par[2]) * 1e4)), "min_thick": int(round(mt * 1e4)),
            "id": str(an.get_material_id()), "number": int(an.get_space_group_number()),
            "occ": [[k[0], k[1], k[2], v] for k, v in sorted(c.items())],
            "id3d": str(SymmetryAnalyzer(a3, symmetry_tol=tol).get_material_id())}


def work(job):
    kind, key, k, npres = job
    base = named(key) if kind == "named" else gen_layer(key, k, inplane=(kind == "group_inplane"))
    if base is None:
        return [{"skip": "no layer generated"}]
    out = []
    rng = rng_for("c11present", kind, key, k)
    for j in range(npres):
        a = present(base, rng, j)
        for mt in (0.5, 1.0, 3.0):
            r = {"kind": kind, "key": str(key), "k": k, "j": j, "mt": mt, "error": "", "n_in": len(a)}
            try:
                # the well-separated named layers are analysed at the library's default tolerance for every second presentation
                r.update(observe(a, mt, tol=None if (kind == "named" and j % 2 == 1 and key in ("graphene", "BN", "MoS2", "TiS2")) else 0.05))
            except Exception as e:
                r["error"] = "%s: %s" % (type(e).__name__, str(e)[:160])
                r.update({"pbc": [False] * 3, "frac": [], "n_conv": 0, "a_len": 0, "b_len": 0, "c_len": 0, "alpha": 0, "beta": 0, "gamma": 0,
                          "extent": 0, "extent_in": 0, "min_thick": 0, "id": "", "number": 0, "occ": [], "id3d": "x"})
            out.append(r)
    return out


def run(tier):
    run = Run("C11", tier, "exploration")
    d = scratch("c11")
    npres = 6 if tier == "quick" else 8
    jobs = [("named", n, 0, npres + 2) for n in ("graphene", "BN", "MoS2", "TiS2", "AA-CSi", "AA-BN")]
    jobs += [("group", sg, k, npres) for sg in LAYER_GROUPS for k in ([0, 1] if tier == "quick" else [0, 1, 2, 3])]
    jobs += [("group_inplane", sg, k, npres) for sg in sorted(MONO_B) for k in (range(4) if tier == "quick" else range(10))]
    recs, nogen = [], 0
    for group in pmap(work, jobs, chunksize=1):
        firsts = {}
        for r in group:
            if "skip" in r:
                nogen += 1
                continue
            r["tid"] = len(recs) + 1
            firsts.setdefault(r["mt"], r["tid"])
            r["first"] = firsts[r["mt"]]
            recs.append(r)
    run.notes["layers_not_generated"] = nogen
    run.count(len(recs))
    tp = os.path.join(d, "layer.ndjson")
    dump_ndjson(tp, recs)
    res = tlc.run("TraceLayer.tla", "TraceLayer.cfg", env={"TRACE_FILE": tp})
    if res.distinct != 2 * len(recs):
        raise MachineryError("TraceLayer consumed %d of %d records" % (res.distinct // 2, len(recs)))
    run.add_model(res, "TraceLayer: %d analyzer runs on 2D inputs" % len(recs))
    run.traces(len(recs))
    for tid, clause in res.printed("FAIL"):
        r = recs[tid - 1]
        key = "C11 clause=%s %s=%s k=%d min_2d_thickness=%s" % (clause, r["kind"], r["key"], r["k"], r["mt"])
        f = recs[r["first"] - 1]
        run.violation(key, "%s: presentation %d reports sg=%s occ=%s a,b,gamma,c=%s pbc=%s error=%r; first presentation sg=%s occ=%s a,b,gamma=%s" % (
            clause, r["j"], r["number"], r["occ"], (r["a_len"], r["b_len"], r["gamma"], r["c_len"]), r["pbc"], r["error"],
            f["number"], f["occ"], (f["a_len"], f["b_len"], f["gamma"])), {k: v for k, v in r.items() if k != "frac"})
    for r in recs:
        if r["j"] > 0:
            run.nontrivial((r["kind"], r["key"], r["k"], r["j"], r["mt"]))
    for r in recs[:2]:
        run.sample({k: v for k, v in r.items() if k != "frac"})
    run.assume("layers generated with ASE's space-group tables in symmorphic groups with the normal along c (b for the monoclinic groups), thickness <= 3 A; symmetry tolerance 0.05 A",
               "lengths compared within 3e-3 A, angles within 3e-2 degrees")
    run.cov["rule"] = "35 symmorphic layer groups (1-3 orbits, flat or buckled) + graphene/BN/MoS2/TiS2 x presentations (vacuum factor 0.6-2.0, 6 axis relabellings, in-plane supercells, SO(3) rotations incl. flips, translation, permutation) x min_2d_thickness {0.5, 1, 3}; non-trivial = non-first presentations"
    return run.finish()
