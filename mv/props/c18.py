"""C18 - classifier recognises pristine slabs and monolayers and isolates adsorbates.
Specs: TraceClassifier.tla (V18: expected class and outliers known from construction); dispatch model Classifier.tla."""
import os

import numpy as np

from .. import clsrun, crystalfam, structures, tlc
from ..common import MachineryError, Run, dump_ndjson, pmap, scratch
from ..common import rng_pinned as rng_for

ADS = ["O", "H", "N", "S"]
N_VARIANTS = {"quick": 2, "thorough": 6}
_TIER = ["quick"]


def descriptors(tier):
    out = []
    k = 0
    for name, sym in crystalfam.elements():
        facets = {"fcc": [(1, 0, 0), (1, 1, 0), (1, 1, 1)], "bcc": [(1, 0, 0)], "hcp": [(0, 0, 1)], "diamond": [(1, 0, 0), (1, 1, 1)],
                  "sc": [(1, 0, 0)]}[sym]
        for f in facets:
            k += 1
            if tier == "quick" and k % 3:
                continue
            out.append({"kind": "slab", "name": name, "facet": f, "layers": 3 + (k // 3) % 3, "n_ads": (k // 3 + 1) % 3, "ads": ADS[k % len(ADS)], "i": k})
    for ci, name in enumerate(list(crystalfam.COMPOUNDS) + ["SrTiO3", "TiO2"]):
        for fi, f in enumerate([(1, 0, 0), (1, 1, 0)] if name not in ("ZnO", "AlN") else [(0, 0, 1)]):
            k += 1
            if tier == "quick" and k % 2:
                continue
            out.append({"kind": "slab", "name": name, "facet": f, "layers": 3, "n_ads": (k // 2) % 3, "ads": "Au" if "O" in name else "O", "i": k})
    # two adsorbates commensurate with the slab lattice: half a lateral cell vector / half the lateral diagonal apart
    kp = 0
    for name, sym in crystalfam.elements():
        facets = {"fcc": [(1, 0, 0), (1, 1, 1)], "bcc": [(1, 0, 0)], "hcp": [(0, 0, 1)], "diamond": [(1, 1, 1)], "sc": [(1, 0, 0)]}[sym]
        for f in facets:
            kp += 1
            if tier == "quick" and kp % 4 != 1:
                continue
            out.append({"kind": "slab", "name": name, "facet": f, "layers": 3 + (kp // 4) % 2, "n_ads": 2, "ads": ["H", "O", "N"][kp % 3],
                        "placement": ["half_a", "half_b", "half_diag"][kp % 3], "i": 7000 + kp})
    # adsorbates on lattice continuation sites (where the next layer's atoms would sit: hollow sites at the bulk bond length)
    kc = 0
    for name, f in [("Cu", (1, 1, 1)), ("Al", (1, 0, 0)), ("Fe", (1, 0, 0)), ("Mg", (0, 0, 1)), ("Si", (1, 1, 1)), ("ZnO", (0, 0, 1)), ("NaCl", (1, 0, 0)),
                    ("MgO", (1, 1, 0)), ("Ag", (1, 1, 0)), ("Ti", (0, 0, 1))]:
        kc += 1
        if tier == "quick" and kc % 2:
            continue
        out.append({"kind": "slab", "name": name, "facet": f, "layers": 3 + kc % 2, "n_ads": 1 + kc % 2, "ads": ["Cd", "Au", "S"][kc % 3],
                    "placement": "continuation", "i": 8000 + kc})
    for mi, name in enumerate(["graphene", "BN", "MoS2-2H", "MoS2-1T", "WSe2-2H", "TiS2-1T"]):
        for size in ((3, 5) if tier == "quick" else (3, 4, 5, 6)):
            out.append({"kind": "mono", "name": name, "size": size, "i": 5000 + mi * 10 + size})
    return out


def execute(job):
    desc, stream = job
    rng = rng_for("c18", sorted((k, str(v)) for k, v in desc.items()), stream)
    if desc["kind"] == "mono":
        a = crystalfam.monolayer(desc["name"], desc["size"])
        ads = []
        exp = "Material2D"
    else:
        placement = desc.get("placement", "random")
        # rectangular lateral supercells (one more repeat along a) for every third descriptor; commensurate pairs need an even
        # number of repeats along the pair's direction, so further repeats are tried until the two top sites exist
        extras = [(1, 0) if desc["i"] % 3 == 0 else (0, 0)] if placement in ("random", "continuation") else [(0, 0), (1, 0), (0, 1), (1, 1)]
        ads = None
        for extra in extras:
            try:
                a = crystalfam.slab(desc["name"], desc["facet"], desc["layers"] + (1 if placement == "continuation" else 0), True, rng,
                                    min_lateral=9.0, extra=extra)
            except Exception as e:
                return {"skip": "builder failed: %s" % e}
            if a is None:
                return {"skip": "primitive cell too large"}
            if len(a) > 300:
                return {"skip": "too many atoms"}
            ok, why = crystalfam.precondition(a, 2, check_heights=False)
            if not ok:
                return {"skip": why}
            if desc["ads"] in a.get_chemical_symbols():
                return {"skip": "adsorbate species present in the slab"}
            if placement == "continuation":
                # the slab was built one layer too thick: its top atomic plane is removed and some of its sites are re-occupied by
                # the foreign species
                top = a.positions[:, 2].max()
                plane = [i for i in range(len(a)) if a.positions[i, 2] > top - 0.3]
                sites = a.positions[[int(i) for i in rng.choice(plane, desc["n_ads"], replace=False)]].copy()
                del a[plane]
                from ase import Atom

                ads = []
                for p_ in sites:
                    a.append(Atom(desc["ads"], position=p_))
                    ads.append(len(a) - 1)
                ok, why = crystalfam.precondition(a[[i for i in range(len(a)) if i not in ads]], 2, check_heights=False)
                if not ok:
                    return {"skip": why}
                break
            ads = crystalfam.add_adsorbates(a, desc["n_ads"], desc["ads"], rng, placement=placement)
            if ads is not None:
                break
        if ads is None:
            return {"skip": "no pair of top sites half a lateral vector apart"}
        exp = "Surface"
    if desc["i"] % 2:
        # relabel the lateral axes (a' = b, b' = -a: same lattice, same handedness)
        c = a.cell[:].copy()
        a.set_cell([c[1], -c[0], c[2]], scale_atoms=False)
        a.wrap()
    a2, perm = structures.rigid(a, rng)
    rec = clsrun.classify_record(a2, {})
    # the same structure translated so that the slab continues through the periodic boundary along its normal (and laterally),
    # wrapped into the cell or left outside it, then rotated and permuted again: class and outliers (in the original numbering)
    # must not change
    variants = []
    for t in range(N_VARIANTS[_TIER[0]] if desc["kind"] == "slab" else 1):
        b = a.copy()
        fz = float(rng.uniform(0.25, 0.75)) if t % 3 != 2 else float(rng.uniform(0, 1))
        shift = fz * b.cell[2] + float(rng.uniform(0, 1)) * b.cell[0] + float(rng.uniform(0, 1)) * b.cell[1]
        b.translate(shift)
        if t % 2 == 0:
            b.wrap()
        b2, pm = structures.rigid(b, rng, translate=False)
        if t == 0:
            # ordering: the atom nearest to the centre of mass (the classifier's first seed) is listed FIRST (index 0)
            import matid.geometry as _g

            w = b2.copy()
            w.wrap()
            j = int(np.argmin(np.linalg.norm(w.get_positions() - _g.get_center_of_mass(w), axis=1)))
            order = np.arange(len(b2))
            order[0], order[j] = order[j], order[0]
            b2 = b2[order]
            pm = np.asarray(pm)[order]
        if t % 2 == 1:
            # every second variant is NOT wrapped (atoms stored up to a cell away from the cell) and carries a FixAtoms
            # constraint, tags, charges, momenta
            b2 = structures.decorate(b2, force=True)
        v = {"fz": fz, "cls": "", "outliers": [], "error": ""}
        try:
            from matid.classification.classifier import Classifier

            c = Classifier().classify(b2)
            v["cls"] = type(c).__name__
            if v["cls"] in ("Surface", "Material2D"):
                v["outliers"] = sorted(int(pm[int(i)]) + 1 for i in c.outliers)
        except Exception as e:
            v["error"] = "%s: %s" % (type(e).__name__, str(e)[:120])
        variants.append(v)
    rec["variants"] = variants
    rec["expected_outliers_orig"] = sorted(int(i) + 1 for i in ads)
    rec.update({"desc": {k: (list(v) if isinstance(v, tuple) else v) for k, v in desc.items()}, "stream": stream, "expected_cls": exp,
                "expected_outliers": sorted(int(np.flatnonzero(perm == i)[0]) + 1 for i in ads)})
    return rec


def run(tier):
    run = Run("C18", tier, "exploration")
    _TIER[0] = tier
    d = scratch("c18")
    res = tlc.run("Classifier.tla", "Classifier_mc.cfg")
    if res.violated:
        raise MachineryError("Classifier.tla design model violates %s" % res.violated)
    run.add_model(res, "Classifier_mc (dispatch)")
    for cfg in ("Region_mc.cfg", "Region_mc2d.cfg"):
        rr = tlc.run("Region.tla", cfg)
        if rr.violated:
            raise MachineryError("Region.tla design model violates %s (%s)" % (rr.violated, cfg))
        run.add_model(rr, "%s: breadth-first region tracking on ideal slabs / tori (Complete, NoOverride, WindingExact, WindingRankExact)" % cfg)
    # crystals with missing atoms (what an adsorbate site / a vacancy looks like to the region tracking): the winding criterion
    # never names a non-periodic direction, and the tracked region is exactly what is joined to the seed through occupied cells
    for cfg in (("Region_vac2d.cfg",) if tier == "quick" else ("Region_vac.cfg", "Region_vac2d.cfg")):
        rr = tlc.run("Region.tla", cfg, timeout=1800)
        if rr.violated:
            raise MachineryError("Region.tla design model violates %s (%s)" % (rr.violated, cfg))
        run.add_model(rr, "%s: up to two vacant sites (Complete = reachable through occupied cells, WindingSound, WindingRankSound)" % cfg)
    if tier == "thorough":
        # sensitivity: the criterion as found (a node with incoming +e and -e edges) names a non-periodic direction once sites are vacant
        sens = tlc.run("Region.tla", "Region_asfound.cfg", timeout=1800, must_pass=False)
        run.notes["Region_asfound_refuted"] = sens.violated
        if sens.violated != "OldHeuristicSound":
            run.model_drift("Region_asfound.cfg is expected to refute OldHeuristicSound (the defect repaired by 4514eff); TLC says %s" % (sens.violated or sens.error or "no violation"))
    jobs = [(dsc, s) for dsc in descriptors(tier) for s in ([0] if tier == "quick" else [0, 1])]
    recs = pmap(execute, jobs, chunksize=1)
    keep, skipped = [], {}
    for r in recs:
        if "skip" in r:
            skipped[r["skip"]] = skipped.get(r["skip"], 0) + 1
            continue
        r["tid"] = len(keep) + 1
        keep.append(r)
    run.notes["descriptors_skipped_by_precondition"] = skipped
    run.count(len(keep))
    tp = os.path.join(d, "cls.ndjson")
    dump_ndjson(tp, keep)
    tres = tlc.run("TraceClassifier.tla", "TraceClassifier.cfg", env={"TRACE_FILE": tp, "MODE": "C18"})
    if tres.distinct != 2 * len(keep):
        raise MachineryError("TraceClassifier consumed %d of %d records" % (tres.distinct // 2, len(keep)))
    run.add_model(tres, "TraceClassifier(C18): %d classifications" % len(keep))
    run.traces(len(keep))
    clsrun.region_layer(run, keep, d, lambda r: 2)
    for tid, clause in tres.printed("FAIL"):
        r = keep[tid - 1]
        dsc = r["desc"]
        key = "C18 clause=%s %s" % (clause, " ".join("%s=%s" % (k, dsc[k]) for k in sorted(dsc) if k != "i"))
        run.violation(key, "%s: classified %s with outliers %s, expected %s with outliers %s (n=%d)" % (
            clause, r["cls"], r["outliers"], r["expected_cls"], r["expected_outliers"], r["n"]), r)
    for r in keep:
        run.nontrivial(tuple(sorted((k, str(v)) for k, v in r["desc"].items())))
    for r in keep[:2] + keep[-1:]:
        run.sample({k: r[k] for k in ("desc", "n", "cls", "outliers", "expected_cls", "expected_outliers")})
    run.assume("slabs pass the independent bonding/overlap precondition (margin 0.15 A); adsorbates are placed on top of a surface atom at the sum of covalent radii; exclusions of the property (bcc (110)/(111), hcp (111)-type cuts) are not generated",
               "PeriodicFinder's heuristics are observed, not modelled")
    run.cov["rule"] = "low-index slabs of reference elements and compound prototypes (3-5 layers, lateral size >= 9 A) with 0-2 foreign adsorbates, monolayer supercells 3x3-6x6, random rotation / translation / permutation; non-trivial = distinct descriptors"
    return run.finish()
