"""C03 - SBC separates a two-material stack into exactly the two slabs.  Spec: TraceSBCVerdict.tla (V02 with a
two-block expected partition); interface decisions (merge / localize) are explored by SBC.tla (C01)."""
import numpy as np

from .. import crystalfam, structures
from ..common import rng_pinned as rng_for
from .c02 import run_expected

FCC, BCC = structures.FCC, structures.BCC


def descriptors(tier):
    out = []
    k = 0
    for lat, facets in ((FCC, ["fcc100", "fcc111"]), (BCC, ["bcc100", "bcc110"])):
        for A in lat:
            for B in lat:
                if A == B or abs(lat[A] - lat[B]) / lat[A] >= 0.05:
                    continue
                for f in facets:
                    k += 1
                    if tier == "quick" and k % 2:
                        continue
                    la, lb = 3 + k % 3, 3 + (k // 3) % 3
                    # attributes taken from different digits of k, so that the quick tier (every second k) still meets both
                    # lateral sizes, both pbc patterns and both noise levels
                    pbc_z = bool((k // 4) % 2)
                    # superlattice (no vacuum along a periodic stacking direction) where the layer sequence closes
                    sup = pbc_z and f in ("fcc100", "bcc100") and (la + lb) % 2 == 0 and (k // 8) % 2 == 0
                    out.append({"A": A, "B": B, "facet": f, "la": la, "lb": lb, "size": 4 + (k // 2) % 2, "pbc_z": pbc_z,
                                "superlattice": sup, "noise": 0.03 * ((k // 3) % 2), "i": k})
    # superlattices: periodic stacking direction without vacuum (short stack periods)
    for lat, f in ((FCC, "fcc100"), (BCC, "bcc100")):
        for A in lat:
            for B in lat:
                if A == B or abs(lat[A] - lat[B]) / lat[A] >= 0.05:
                    continue
                k += 1
                if tier == "quick" and k % 3:
                    continue
                out.append({"A": A, "B": B, "facet": f, "la": 3, "lb": 3 + 2 * (k % 2), "size": 4, "pbc_z": True, "superlattice": True,
                            "noise": 0.03 * (k % 2), "i": k})
    # corners of the family, in both tiers: the densest nets (smallest lattice constants) at the largest lateral size, and the
    # widest nets at the smallest - where the numbers of candidate spans / neighbours inside max_cell_size are extreme
    for lat, f in ((FCC, "fcc100"), (BCC, "bcc100"), (FCC, "fcc111")):
        pairs = sorted((lat[A] + lat[B], A, B) for A in lat for B in lat if A < B and abs(lat[A] - lat[B]) / lat[A] < 0.05)
        if not pairs:
            continue
        for (tag, (_, A, B), size) in (("dense", pairs[0], 5), ("wide", pairs[-1], 4)):
            for pz in (False, True):
                k += 1
                out.append({"A": A, "B": B, "facet": f, "la": 3 + k % 2, "lb": 5 - k % 2, "size": size, "pbc_z": pz, "superlattice": False,
                            "noise": 0.0, "corner": tag, "i": k})
    return out


def execute(job):
    from ase.data import covalent_radii
    from matid.clustering import SBC

    desc, stream = job
    s, nb = structures.stack(dict(desc, noise=0))
    # independent precondition with margin: each slab bonded and non-overlapping, interface at bonding distance
    ok, why = crystalfam.precondition_stack(s, nb) if hasattr(crystalfam, "precondition_stack") else (True, "")
    if not ok:
        return {"skip": why}
    rng = rng_for("c03run", sorted(desc.items()), stream)
    crystalfam.rattle(s, desc["noise"], rng)
    # the same stack, stored differently: rigid rotation / translation (atoms left outside the cell, pushed along a non-periodic
    # stacking direction, or wrapped through the boundary), left-handed basis, constraints and tags, atom order
    s2, perm = structures.rigid(s, rng, rotate=bool(desc["i"] % 3), translate=True, permute=True)
    exp = [sorted(int(np.flatnonzero(perm == i)[0]) + 1 for i in range(nb)), sorted(int(np.flatnonzero(perm == i)[0]) + 1 for i in range(nb, len(s)))]
    seed = int(rng.integers(0, 1000))
    rec = {"desc": desc, "stream": stream, "n": len(s2), "seed": seed, "expected": exp, "expected_dim": 2, "error": "", "final": [], "dims": []}
    try:
        sbc = SBC()
        if stream % 2 == 0:
            # the clustering object has a history: a previous call on another arrangement of the same atoms
            prev = s[rng.permutation(len(s))]
            prev.translate(rng.uniform(-2, 2, 3))
            sbc.get_clusters(prev, seed=seed + 1)
        clusters = sbc.get_clusters(s2, seed=seed)
    except Exception as e:
        rec["error"] = "%s: %s" % (type(e).__name__, str(e)[:160])
        return rec
    rec["final"] = [{"idx": sorted(int(i) + 1 for i in c.indices)} for c in clusters]
    for c in clusters:
        try:
            d = c.get_dimensionality()
        except Exception:
            d = -9
        rec["dims"].append({"shortcut": -1 if d is None else int(d)})
    return rec


def run(tier):
    jobs = [(d, s) for d in descriptors(tier) for s in ([0] if tier == "quick" else [0, 1])]
    run = run_expected("C03", tier, jobs, execute, "C03",
                       lambda r: "A=%s B=%s facet=%s la=%d lb=%d size=%d pbc_z=%s noise=%s" % (
                           r["desc"]["A"], r["desc"]["B"], r["desc"]["facet"], r["desc"]["la"], r["desc"]["lb"], r["desc"]["size"], r["desc"]["pbc_z"], r["desc"]["noise"]) + (" superlattice" if r["desc"].get("superlattice") else ""))
    run.assume("stacks are built with B strained to A's in-plane cell (mismatch < 5 %) at the ideal interlayer distance; the two index sets are known from construction",
               "PeriodicFinder's heuristics are observed, not modelled")
    run.cov["rule"] = "all ordered pairs of distinct fcc metals on (100)/(111) and bcc metals on (100)/(110) with mismatch < 5 %, 3-5 layers each, 4x4-5x5, TTT/TTF, noise 0/0.03, random permutation and seed; non-trivial = distinct descriptors"
    return run.finish()
