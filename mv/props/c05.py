"""C05 - the conventional cell is the same crystal as the input, chirality preserved.  Spec: Crystal.tla (V05);
exhaustive core: GroundState.tla ProperIfSohncke (run by C06) and SymTables.tla NormalizerMetric/MapsGroup (C14)."""
from ..common import Run, scratch
from . import symcommon


def run(tier):
    run = Run("C05", tier, "exploration")
    d = scratch("c05")
    streams = [0, 1] if tier == "quick" else list(range(8))
    jobs = [(sg, s, 2 if tier == "quick" else 3, None, 48, "C05") for sg in range(1, 231) for s in streams]
    recs = symcommon.collect(run, jobs)
    symcommon.judge(run, recs, "C05", d, lambda r, c: (
        "C05 clause=%s sg=%d letters=%s species=%s p_index=%s" % (c, r["sg"], r["gen_letters"], r["gen_species"], r["pres"].get("p_index")),
        "%s on a crystal of group %d, orbits %s, presentation %s" % (c, r["sg"], list(zip(r["gen_letters"], r["gen_species"])), r["pres"])))
    for r in recs:
        run.nontrivial((r["sg"], tuple(r["gen_letters"]), tuple(r["gen_species"])))
    run.notes["congruence_witness_found_by_harness"] = sum(1 for r in recs if r["hint_ok"])
    run.notes["chiral_group_observations"] = sum(1 for r in recs if r["chiral"])
    symcommon.sample(run, recs)
    run.assume("idealized standardized atoms of the input = a separately issued spglib standardization at the same tolerance",
               "proper lattice automorphisms = determinant +1 rotations of the holohedry group of the Bravais type (reference groups 2, 10, 47, 123, 166, 191, 221), valid for the generic lattice parameters the generator draws",
               "the harness proposes a witness (A, t); TLC verifies it, or searches all candidates itself when none was proposed")
    run.cov["rule"] = "crystals in all 230 groups, 1-3 orbits, random species x presentations; non-trivial = distinct (group, letters, species)"
    return run.finish()
