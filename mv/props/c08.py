"""C08 - reported free Wyckoff parameters regenerate the atoms of their set.  Spec: Crystal.tla (V08)."""
from ..common import Run, scratch
from .. import crystals
from . import symcommon


def c11_groups():
    from .c11 import LAYER_GROUPS

    return LAYER_GROUPS


def layer_record(job):
    """observation of a 2D input reduced to the fields V08 reads"""
    import numpy as np
    from ase.build import mx2
    from matid.symmetry import SymmetryAnalyzer

    from .. import crystals, symrun
    from . import c11

    kind, key, k = job
    # layers are generated independently of VERIF_SEED (pinned inputs: findings on 2D inputs are listed by key)
    import os

    saved = os.environ.get("VERIF_SEED")
    os.environ["VERIF_SEED"] = "0"
    try:
        return _layer_record(kind, key, k)
    finally:
        if saved is None:
            os.environ.pop("VERIF_SEED", None)
        else:
            os.environ["VERIF_SEED"] = saved


def _layer_record(kind, key, k):
    import numpy as np
    from ase.build import mx2
    from matid.symmetry import SymmetryAnalyzer

    from .. import crystals, symrun
    from . import c11

    if kind == "named" and key.startswith("MoSSe"):
        base = mx2("MoS2", "2H", a=3.18, thickness=3.19 if key == "MoSSe" else 3.31, vacuum=6)
        nums = base.numbers.copy()
        nums[np.argmax(base.positions[:, 2])] = 34  # Janus layer: polar, free z
        base.numbers = nums
        base.set_pbc([True, True, False])
    else:
        base = c11.named(key) if kind == "named" else c11.gen_layer(key, k)
    if base is None:
        return None
    out = []
    for mt in (0.5, 1.0, 3.0):
        r = {"sg": 0, "cid": "2d/%s/%s" % (key, k), "j": 0, "pres": {"two_dimensional": True, "min_2d_thickness": mt}, "gen_letters": ["2D:%s" % key],
             "gen_species": [], "psets_error": "", "psets": [], "sets": [], "has_free": False, "number": 1, "eps_tol": 8, "two_dimensional": True,
             "conv": {"pos": [], "n": 0}}
        try:
            an = SymmetryAnalyzer(base, symmetry_tol=0.05, min_2d_thickness=mt)
            conv = an.get_conventional_system()
            r["number"] = int(an.get_space_group_number())
            r["conv"] = {"pos": crystals.qgrid(conv.get_scaled_positions(wrap=False)), "n": len(conv)}
            lens = np.linalg.norm(conv.get_cell()[:], axis=1)
            r["eps_tol"] = int(np.ceil(0.05 / lens.min() * crystals.Q)) + 8
            r["has_free"] = bool(an.get_has_free_wyckoff_parameters())
            r["sets"] = [{"letter": str(s.wyckoff_letter), "z": int(s.atomic_number), "mult": int(s.multiplicity), "idx": [int(i) + 1 for i in s.indices]}
                         for s in an.get_wyckoff_sets_conventional(return_parameters=False)]
            ps = an.get_wyckoff_sets_conventional(return_parameters=True)
            r["psets"] = [{"letter": str(s.wyckoff_letter), "z": int(s.atomic_number), "idx": [int(i) + 1 for i in s.indices],
                           "x": symrun._enc_param(s.x), "y": symrun._enc_param(s.y), "z_": symrun._enc_param(s.z),
                           "in_unit": all(v is None or (0 <= v < 1) for v in (s.x, s.y, s.z)), "rep": [str(c) for c in s.representative]} for s in ps]
        except Exception as e:
            r["psets_error"] = "%s: %s" % (type(e).__name__, str(e)[:160])
        r["sg"] = r["number"]
        out.append(r)
    return out


def run(tier):
    run = Run("C08", tier, "exploration")
    d = scratch("c08")
    from matid.data.symmetry_data import WYCKOFF_SETS

    jobs = []
    for sg in range(1, 231):
        letters = sorted(k for k in WYCKOFF_SETS[sg] if k != "translations")
        for i, l in enumerate(letters):
            if tier == "quick" and (sg + i) % 2:
                continue
            # polar groups get a second presentation with the origin on an atom (free parameters exactly 0)
            jobs.append((sg, 0, 2 if crystals.is_polar(sg) else 1, [l], 150, "C08"))
        # pairs of letters (two occupied positions interact in the solver's verification step)
        for i in range(len(letters) - 1):
            if (sg + i) % (6 if tier == "quick" else 2) == 0:
                jobs.append((sg, 1, 1, [letters[i], letters[i + 1]], 150, "C08"))
    jobs += [(sg, 2, 2, None, 64, "C08") for sg in range(1, 231) if tier == "thorough" or sg % 3 == 0]
    recs = symcommon.collect(run, jobs)
    # two-dimensionally periodic inputs (the property quantifies over them as well)
    layer_jobs = [("named", n, 0) for n in ("MoS2", "TiS2", "BN", "MoSSe", "MoSSe-b")] + [("group", sg, k) for sg in c11_groups() for k in ([0] if tier == "quick" else [0, 1])]
    from ..common import pmap

    n2d = 0
    for r in pmap(layer_record, layer_jobs, chunksize=2):
        if r is None:
            continue
        for rr in r:
            rr["tid"] = len(recs) + 1
            rr["first"] = rr["tid"]
            recs.append(rr)
            n2d += 1
    run.notes["two_dimensional_inputs"] = n2d
    symcommon.judge(run, recs, "C08", d, lambda r, c: (
        "C08 clause=%s sg=%d letters=%s%s" % (c, r["sg"], sorted(set(r["gen_letters"])),
                                              (" k=%s" % r["cid"].split("/")[-1]) if r.get("two_dimensional") else ""),
        "%s: %s on a crystal of group %d with orbits on %s" % (c, r.get("psets_error") or [(s["letter"], s["x"], s["y"], s["z_"]) for s in r["psets"]], r["sg"], r["gen_letters"])))
    for r in recs:
        for s in r["sets"]:
            run.nontrivial((r["sg"], s["letter"]))
    symcommon.sample(run, recs)
    run.assume("'free in that position' and the representative expression are read from MatID's live table, which C14 ties to the reference groups",
               "regeneration is accepted within the symmetry tolerance box (eps_tol = tol / shortest cell vector on the Q-grid)",
               "samples whose parameters fall within tolerance of a special position are avoided by the generator (parameters in 0.06..0.47)")
    run.cov["rule"] = "every (space group, Wyckoff letter) occupied (every second one in the quick tier), adjacent letter pairs, and random multi-orbit crystals; non-trivial = distinct (group, occupied letter)"
    return run.finish()
