"""C08 - reported free Wyckoff parameters regenerate the atoms of their set.  Spec: Crystal.tla (V08)."""
from ..common import Run, scratch
from . import symcommon


def run(tier):
    run = Run("C08", tier, "exploration")
    d = scratch("c08")
    from matid.data.symmetry_data import WYCKOFF_SETS

    jobs = []
    for sg in range(1, 231):
        letters = sorted(k for k in WYCKOFF_SETS[sg] if k != "translations")
        for i, l in enumerate(letters):
            if tier == "quick" and (sg + i) % 2:
                continue
            jobs.append((sg, 0, 1, [l], 150, "C08"))
        # pairs of letters (two occupied positions interact in the solver's verification step)
        for i in range(len(letters) - 1):
            if (sg + i) % (6 if tier == "quick" else 2) == 0:
                jobs.append((sg, 1, 1, [letters[i], letters[i + 1]], 150, "C08"))
    jobs += [(sg, 2, 2, None, 64, "C08") for sg in range(1, 231) if tier == "thorough" or sg % 3 == 0]
    recs = symcommon.collect(run, jobs)
    symcommon.judge(run, recs, "C08", d, lambda r, c: (
        "C08 clause=%s sg=%d letters=%s" % (c, r["sg"], sorted(set(r["gen_letters"]))),
        "%s: %s on a crystal of group %d with orbits on %s" % (c, r.get("psets_error") or [(s["letter"], s["x"], s["y"], s["z_"]) for s in r["psets"]], r["sg"], r["gen_letters"])))
    for r in recs:
        for s in r["sets"]:
            run.nontrivial((r["sg"], s["letter"]))
    symcommon.sample(run, recs)
    run.assume("'free in that position' and the representative expression are read from MatID's live table, which C14 ties to the reference groups",
               "regeneration is accepted within the symmetry tolerance box (eps_tol = tol / shortest cell vector on the Q-grid)",
               "samples whose parameters fall within tolerance of a special position are avoided by the generator (parameters in 0.06..0.47)")
    run.cov["rule"] = "every (space group, Wyckoff letter) occupied (every second one in the quick tier), adjacent letter pairs, and random multi-orbit crystals; non-trivial = distinct (group, occupied letter)"
    return run.finish()
