"""C10 - the displacement tensor is a sound and, within range, exact minimum-image table.
Specs: Lattice.tla (exact definitions), CellTrace.tla (clauses of C10 on recorded calls)."""
import itertools
import os

import numpy as np

from .. import tlc, zworld
from ..common import MachineryError, Run, dump_ndjson, pmap, rng_for, scratch

CUTS = [1, 5, 13, 25, 61, 121, -1, -1]


def configs(tier):
    out = []
    names = list(zworld.CELLS)
    per = {"quick": 6, "thorough": 30}[tier]
    for ci, name in enumerate(names):
        for mult in (1, 2):
            cell = (np.array(zworld.CELLS[name]) * mult).tolist()
            pts = zworld.inside_points(cell)
            for pi, pbc in enumerate(zworld.PBCS):
                for k in range(per):
                    rng = rng_for("c10cfg", name, mult, pbc, k)
                    if k < per // 2 + 1:
                        n = 2 if k % 2 == 0 else 3
                    else:
                        n = int(rng.integers(1, 11))
                    n = min(n, len(pts))
                    idx = rng.choice(len(pts), n, replace=False)
                    c2x2 = CUTS[(ci + pi + k + mult) % len(CUTS)]
                    if c2x2 != -1:
                        c2x2 = c2x2 * mult * mult + (0 if (c2x2 * mult * mult) % 2 else 1)
                        if k == 0:
                            # the unrotated, unscaled frame is exact in floating point: integer cutoffs 1..4 put lattice
                            # neighbours EXACTLY at the cutoff ("within the requested cutoff" includes them)
                            c2x2 = 2 * (1 + (ci + pi) % 4) ** 2
                    out.append({"cellname": name, "mult": mult, "cell": cell, "pbc": list(pbc), "pos": [pts[i] for i in idx],
                                "c2x2": int(c2x2), "k": k, "none_cutoff": bool(k % 2)})
    return out


def exhaustive_pairs(tier):
    """every pair of lattice points of the small cells, every pbc, a cutoff below and above typical distances"""
    out = []
    names = ["cubic2", "mangled", "needle", "sheared", "plate", "triclinic"] if tier == "quick" else list(zworld.CELLS)
    for name in names:
        cell = zworld.CELLS[name]
        pts = zworld.inside_points(cell)
        for pbc in zworld.PBCS:
            for (a, b) in itertools.combinations(range(len(pts)), 2):
                for c2x2 in ((5, -1) if tier == "quick" else (1, 5, 13, 61, -1)):
                    if tier == "quick" and len(pts) > 12 and (a * 7 + b) % 4:
                        continue
                    kk = -1 if (a + b) % 4 else -2  # k = -2: not rotated / scaled, cutoffs that are exact ties (2, 3 instead of sqrt(2.5), sqrt(6.5))
                    out.append({"cellname": name, "mult": 1, "cell": cell, "pbc": list(pbc), "pos": [pts[a], pts[b]],
                                "c2x2": {5: 8, 13: 18}.get(c2x2, c2x2) if kk == -2 else c2x2, "k": kk, "none_cutoff": False})
    return out


ENCODINGS = ["baseline", "pbc_list", "pbc_tuple_or_bool", "fortran", "readonly", "ase_cell", "noncontiguous", "int_if_integral",
             "pbc_int_tuple", "pbc_np_int"]


def encode(enc, P, C, pbc, unrotated=False):
    """(positions, cell, pbc) as the caller may legitimately hand them over"""
    P, C = np.array(P, dtype=float), np.array(C, dtype=float)
    pb = np.array(pbc, dtype=bool)
    if enc == "pbc_list":
        return P, C, [bool(x) for x in pbc]
    if enc == "pbc_tuple_or_bool":
        return P, C, (bool(pbc[0]) if len(set(bool(x) for x in pbc)) == 1 else tuple(bool(x) for x in pbc))
    if enc == "pbc_int_tuple":  # ASE-style 0/1 flags
        return P, C, tuple(int(bool(x)) for x in pbc)
    if enc == "pbc_np_int":
        return P, C, np.array([int(bool(x)) for x in pbc])
    if enc == "fortran":
        return np.asfortranarray(P), np.asfortranarray(C), pb
    if enc == "readonly":
        P.setflags(write=False)
        C.setflags(write=False)
        return P, C, pb
    if enc == "ase_cell":
        from ase.cell import Cell

        return P, Cell(C), pb
    if enc == "noncontiguous":
        return np.repeat(P, 2, axis=1)[:, ::2], np.repeat(C, 2, axis=1)[:, ::2], pb
    if enc == "int_if_integral" and unrotated and np.allclose(P, np.rint(P)) and np.allclose(C, np.rint(C)):
        return np.rint(P).astype(np.int64), np.rint(C).astype(np.int64), pb
    return P, C, pb


def execute(cfg):
    import matid.geometry

    rng = rng_for("c10run", cfg["cellname"], cfg["mult"], cfg["pbc"], cfg["pos"], cfg["c2x2"])
    unrot = cfg["k"] in (0, -2)
    fr = zworld.Frame(rng, rotate=not unrot)
    cell, pbc, pos = cfg["cell"], cfg["pbc"], cfg["pos"]
    n = len(pos)
    red, U = zworld.reduce_lattice(cell, pbc)
    d2max = max([int(np.dot(np.subtract(a, b), np.subtract(a, b))) for a in pos for b in pos] + [1])
    K = zworld.safe_k(red, d2max)
    if K is None or (2 * K + 1) ** 3 * n * n > 400000:
        return {"skip": "search box too large"}
    cutoff = None if cfg["c2x2"] == -1 and cfg["none_cutoff"] else (float("inf") if cfg["c2x2"] == -1 else fr.length(cfg["c2x2"]))
    P, C = fr.to_code(pos), fr.to_code(cell)
    # the same call under different but valid encodings of its arguments (one per record, rotating): results are judged by the
    # same clauses, so an encoding the code mishandles shows up as an ordinary violation whose key names the encoding
    enc = ENCODINGS[int(rng.integers(len(ENCODINGS)))] if cfg["k"] != 1 else "baseline"
    if unrot and int(rng.integers(2)):
        enc = "int_if_integral"
    Pa, Ca, pbca = encode(enc, P, C, pbc, unrotated=unrot)
    rec = {"ev": "tensor", "cell": cell, "pbc": pbc, "pos": pos, "red": red, "U": U, "K": K, "c2x2": cfg["c2x2"],
           "lmax2": max([int(np.dot(cell[i], cell[i])) for i in range(3) if pbc[i]] + [0]),
           "cfg": dict({k: cfg[k] for k in ("cellname", "mult", "k", "none_cutoff")}, enc=enc), "n": n}
    try:
        if cutoff is None:
            disp, fac, dist = matid.geometry.get_displacement_tensor(Pa, Ca, pbca, None,
                                                                     return_factors=True, return_distances=True)
        else:
            disp, fac, dist = matid.geometry.get_displacement_tensor(Pa, Ca, pbca, cutoff=cutoff,
                                                                     return_factors=True, return_distances=True)
    except Exception as e:
        rec["error"] = "%s: %s" % (type(e).__name__, e)
        return rec
    # history: keep the returned tables, call again for another input with the same number of atoms, look at the tables again
    kept = [np.array(x, copy=True) for x in (disp, fac, dist)]
    rec["untouched_by_later_call"] = True
    try:
        P2 = np.array(P, dtype=float)[::-1] * 1.37 + 0.11
        matid.geometry.get_displacement_tensor(P2, np.array(C, dtype=float), np.array([not bool(x) for x in pbc]), cutoff=0.5 * (1 + cfg["k"] % 3),
                                               return_factors=True, return_distances=True)
        rec["untouched_by_later_call"] = bool(all(np.array_equal(a, b) for a, b in zip(kept, (disp, fac, dist))))
    except Exception as e:
        rec["error"] = "second call %s: %s" % (type(e).__name__, e)
        return rec
    fin = np.isfinite(dist)
    consistent = bool(np.array_equal(fin, np.isfinite(disp).all(axis=2)) and np.array_equal(fin, np.isfinite(fac).all(axis=2)))
    d = np.where(fin[:, :, None], disp, 0.0)
    f = np.where(fin[:, :, None], fac, 0.0)
    r = np.where(fin, dist, 0.0)
    rec["fin"] = fin.tolist()
    rec["disp"] = fr.back_vec(d).tolist()
    rec["fac"] = fr.back_int(f).tolist()
    rec["dist2"] = fr.back_d2(r).tolist()
    rec["exact"] = bool(fr.exact and consistent)
    rec["resid"] = fr.resid
    rec["same_as_get_distances"] = True
    # the distance table of get_distances must be the same table (unbounded cutoff)
    if cfg["c2x2"] == -1 and n >= 1:
        from ase import Atoms

        at = Atoms(numbers=[6] * n, positions=P, cell=C, pbc=pbc)
        try:
            dm = matid.geometry.get_distances(at).dist_matrix_mic
            rec["same_as_get_distances"] = bool(np.allclose(dm, dist, rtol=0, atol=1e-9, equal_nan=True))
        except Exception as e:
            rec["error"] = "get_distances %s: %s" % (type(e).__name__, e)
    return rec


def run(tier):
    run = Run("C10", tier, "model_checking")
    d = scratch("c10")
    mres = tlc.run("LatticeModel.tla", "LatticeModel.cfg" if tier == "quick" else "LatticeModel_full.cfg", timeout=2400)
    if mres.violated:
        raise MachineryError("LatticeModel: theorem %s of the exact minimum-image definitions fails" % mres.violated)
    bres = tlc.run("CellBins.tla", "CellBins.cfg")
    if bres.violated:
        raise MachineryError("CellBins: the binning rule of the model violates %s" % bres.violated)
    run.add_model(bres, "CellBins: bin count / width rule of celllist.cpp, every range <= 24, 9 cutoffs, all point pairs: BinsSuffice, BinInRange")
    for vcfg in ("CellBins_round.cfg", "CellBins_ceil.cfg"):
        vres = tlc.run("CellBins.tla", vcfg, must_pass=False)
        if vres.violated != "BinsSuffice":
            raise MachineryError("vacuity guard: the narrowed-bin variant %s should violate BinsSuffice" % vcfg)
    run.notes["cellbins_variants_refuted"] = ["round_nearest_no_clamp", "ceil_no_clamp"]
    run.add_model(mres, "LatticeModel: MicSymmetric, SafeKSuffices, BasisIndependent, MicBelowDirect, ShiftInvariant on 5 cells x 8 pbc x 4 basis changes x difference vectors")
    cfgs = exhaustive_pairs(tier) + configs(tier)
    recs = pmap(execute, cfgs, chunksize=32)
    keep, skipped = [], 0
    for r in recs:
        if "skip" in r:
            skipped += 1
            continue
        if "error" in r:
            run.violation("C10 raises cell=%s pbc=%s c2x2=%s" % (r["cfg"]["cellname"], r["pbc"], r["c2x2"]),
                          "get_displacement_tensor raised %s" % r["error"], r)
            continue
        r["tid"] = len(keep) + 1
        keep.append(r)
    run.notes["skipped_box_too_large"] = skipped
    run.count(len(keep))
    res, fails = tlc.run_chunks("CellTrace.tla", "CellTrace.cfg", keep, os.path.join(d, "tensor"), timeout=3000)
    run.add_model(res, "CellTrace(tensor): %d recorded calls, each judged against Lattice!Mic2" % len(keep))
    run.traces(len(keep))
    for r, (clause,) in fails:
        if clause.startswith("HARNESS"):
            raise MachineryError("harness setup rejected by the spec (%s) on %s" % (clause, r["cfg"]))
        key = "C10 clause=%s cell=%s x%d pbc=%s c2x2=%s pos=%s enc=%s" % (clause, r["cfg"]["cellname"], r["cfg"]["mult"], r["pbc"], r["c2x2"], r["pos"],
                                                                              r["cfg"].get("enc"))
        run.violation(key, "%s on cell %s pbc %s cutoff^2=%s positions %s" % (clause, r["cell"], r["pbc"],
                                                                                  "inf" if r["c2x2"] == -1 else r["c2x2"] / 2.0, r["pos"]), r)
    # non-trivial: some pair's minimum image is not the n=0 image, or some pair is beyond the cutoff
    for r in keep:
        fac = np.array(r["fac"])
        if fac.any():
            run.nontrivial(("wrapped", r["tid"]))
        elif not np.all(r["fin"]):
            run.nontrivial(("beyond", r["tid"]))
    for r in keep[:3] + keep[-2:]:
        run.sample({k: r[k] for k in ("cell", "pbc", "pos", "c2x2", "K", "fin", "fac", "dist2")})
    run.assume("verdict domain = the rational world (integer cells/positions under arbitrary rotation and scale); arbitrary real coordinates are not judged",
               "minimum images are searched in a box of a Minkowski-reduced basis; TLC re-checks that the basis generates the same lattice and that the box is large enough (SafeK)",
               "ext.cpp binding glue is not rebuilt (ctypes shim over geometry.cpp/celllist.cpp)")
    run.cov["rule"] = ("catalogue of 10 integer cells x {1,2} scale x 8 pbc x cutoffs (half-integer squares, inf, None) x 1-10 atoms on lattice points inside the cell, "
                       "all pairs of points for the small cells; non-trivial = a minimum image with non-zero factors or a pair beyond the cutoff")
    return run.finish()
