"""C15 - get_is_chiral is true exactly for the 65 Sohncke groups, however the crystal is presented.
Specs: SymGroup (Sohncke), TraceSym (ChiralIffSohncke, FlagPresentationInvariant)."""
import os

from .. import export_data, tlc
from ..common import MachineryError, Run, dump_ndjson, pmap, rng_for, scratch

N_PRES = {"quick": 6, "thorough": 14}


def _work(args):
    sg, stream, npres = args
    from .. import crystals, symobs

    c = symobs.find_crystal(sg, k0=stream * 20)
    if c is None:
        return {"sg": sg, "skip": True, "recs": []}
    out = []
    rng = rng_for("c15-present", sg, stream)
    for j in range(npres):
        if j == 0:
            at, pres = c["atoms"], {"p_index": 0, "as_generated": True}
        else:
            # walk through the catalogue of basis changes so that every group meets every kind
            at, pres = crystals.present(c["atoms"], rng, p_index=(sg + stream + j) % len(crystals.PRESENT_P),
                                        unwrap=bool(j % 3 == 2), primitive=bool(j % 2 == 1))
        r = {"ev": "chiral", "sg": sg, "cid": "%d/%d" % (sg, stream), "j": j, "pres": pres, "letters": c["letters"]}
        try:
            # the same crystal, re-presented: skip presentations whose group an independent search cannot confirm
            if crystals.spg_number(at, crystals.TOL) != sg:
                r["skip"] = "independent spglib search does not find the group for this presentation"
            else:
                r.update(symobs.obs_chiral(at))
        except Exception as e:
            r["error"] = "%s: %s" % (type(e).__name__, e)
        out.append(r)
    return {"sg": sg, "recs": out}


def run(tier):
    run = Run("C15", tier, "model_checking")
    d = scratch("c15")
    refgroups = os.path.join(d, "refgroups.json")
    export_data.export_refgroups(refgroups)
    streams = [0] if tier == "quick" else [0, 1, 2]
    jobs = [(sg, s, N_PRES[tier]) for sg in range(1, 231) for s in streams]
    recs, skipped, nogen = [], 0, 0
    for res in pmap(_work, jobs):
        if res.get("skip"):
            nogen += 1
        first = None
        for r in res["recs"]:
            if "skip" in r:
                skipped += 1
                continue
            if "error" in r:
                run.violation("chiral sg=%d raises" % r["sg"], "get_is_chiral raised: %s" % r["error"], r)
                continue
            r["tid"] = len(recs) + 1
            if first is None:
                first = r["tid"]
            r["first"] = first
            recs.append(r)
            run.nontrivial((r["cid"], r["pres"].get("p_index"), r["j"], r["pres"].get("primitive")))
    run.count(len(recs))
    run.notes["presentations_skipped_unconfirmed_group"] = skipped
    run.notes["groups_without_generated_crystal"] = nogen
    tp = os.path.join(d, "chiral.ndjson")
    dump_ndjson(tp, recs)
    tres = tlc.run("TraceSym.tla", "TraceSym.cfg", env={"REFGROUPS": refgroups, "TRACE_FILE": tp})
    if tres.distinct != 2 * len(recs):
        raise MachineryError("TraceSym consumed %d of %d records" % (tres.distinct // 2, len(recs)))
    run.add_model(tres, "TraceSym chiral: %d presentations; ASSUME SohnckeCount = 65 over the reference groups" % len(recs))
    run.traces(len(recs))
    for tid, clause in tres.printed("FAIL"):
        r = recs[tid - 1]
        run.violation("chiral sg=%d clause=%s" % (r["sg"], clause),
                      "%s: get_is_chiral()=%s for a crystal of group %d (detected %d), presentation %s" % (
                          clause, r["flag"], r["sg"], r["number"], r["pres"]), r)
    for r in recs[:3]:
        run.sample(r)
    run.assume("truth about the group of each presentation: an independent spglib search at the analyzer's tolerance; "
               "presentations it cannot confirm are skipped and counted",
               "Sohncke(G) is evaluated in TLC on spglib's Hall database operations (integer determinants)")
    run.cov["rule"] = ("crystals in all 230 groups x presentations (catalogue of 12 basis changes / supercells |det|<=4, "
                       "random rotation, translation, permutation, unwrapped atoms); non-trivial = distinct (crystal, presentation)")
    return run.finish()
