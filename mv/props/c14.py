"""C14 - built-in space-group tables vs. the International Tables.  Specs: SymGroup/SymTables/TraceSym."""
import os

from .. import export_data, tlc
from ..common import MachineryError, Run, dump_ndjson, pmap, scratch


def _lookup(sg):
    from .. import symobs

    c = symobs.find_crystal(sg)
    if c is None:
        return {"sg": sg, "skip": "no crystal generated"}
    try:
        o = symobs.obs_info(c["atoms"])
    except Exception as e:  # the analyzer must answer for a valid crystal
        return {"sg": sg, "error": "%s: %s" % (type(e).__name__, e), "letters": c["letters"]}
    o.update({"ev": "info", "sg": sg, "letters": c["letters"], "natoms": len(c["atoms"])})
    # the same crystal described by supercells whose shape breaks the lattice symmetry (2x1x1, 1x1x2, sheared det 3) and by a
    # primitive-lattice basis: what is reported for "a crystal of that group" must not depend on the description
    from .. import crystals
    from ..common import rng_for

    o["more"] = []
    rng = rng_for("c14-present", sg)
    for pi, prim in ((3, False), (6, False), (5, True), (11, False)):
        try:
            at, pres = crystals.present(c["atoms"], rng, p_index=pi, primitive=prim)
            if len(at) > 400 or crystals.spg_number(at, crystals.TOL) != sg:
                continue
            o2 = symobs.obs_info(at)
            o2.update({"ev": "info", "sg": sg, "letters": c["letters"], "natoms": len(at), "presentation": {"p_index": pi, "primitive": prim}})
            o["more"].append(o2)
        except Exception as e:
            o["more"].append({"sg": sg, "error": "%s: %s" % (type(e).__name__, e), "letters": c["letters"], "presentation": {"p_index": pi, "primitive": prim}})
    # history: the tables are module-level objects that every analysis reads; after ordinary use (full analyses of several
    # crystals of this group, each also with its species interchanged so that other normalizers are selected) the rows of
    # this group are exported again and judged again if they differ from the rows at import
    used = 0
    for stream in range(N_USE[_TIER[0]]):
        cc = c if stream == 0 else symobs.find_crystal(sg, k0=20 * stream)
        if cc is None:
            continue
        at = cc["atoms"]
        nums = sorted(set(at.numbers.tolist()))
        variants = [at]
        if len(nums) > 1:
            sw = at.copy()
            sw.numbers = [nums[len(nums) - 1 - nums.index(z)] for z in at.numbers]
            variants.append(sw)
        for v in variants:
            try:
                an = symobs.analyzer(v)
                an.get_conventional_system()
                an.get_wyckoff_sets_conventional()
                an.get_primitive_system()
                used += 1
            except Exception:
                pass
    try:
        o["rows_after_use"] = export_data.group_rows(sg)
    except Exception as e:
        o["rows_error"] = "%s: %s" % (type(e).__name__, str(e)[:200])
    o["analyses_before_reexport"] = used
    return o


N_USE = {"quick": 3, "thorough": 8}
_TIER = ["quick"]


def run(tier):
    run = Run("C14", tier, "model_checking")
    d = scratch("c14")
    symdata, refgroups, tab, ref = export_data.export_all(d)
    env = {"SYMDATA": symdata, "REFGROUPS": refgroups}

    # ---- exhaustive over the live tables (model = verdict, DESIGN 5 C14)
    res = tlc.run("SymTables.tla", "SymTables.cfg", env=env, timeout=1500)
    n_pos = sum(len(g["pos"]) for g in tab)
    n_norm = sum(len(g["norms"]) for g in tab)
    n_tasks = 230 + n_pos + n_norm
    if res.distinct != 2 * n_tasks:
        raise MachineryError("SymTables evaluated %d of %d table entries" % (res.distinct // 2, n_tasks))
    run.add_model(res, "SymTables: 230 info rows, %d Wyckoff positions, %d normalizers" % (n_pos, n_norm))
    run.count(n_tasks)
    run.cov["exhaustive"] = True
    for kind, sg, k, clause in res.printed("FAIL"):
        if clause.startswith("HARNESS"):
            raise MachineryError("reference group %d fails its own sanity check" % sg)
        if kind == "group":
            key = "info sg=%d clause=%s" % (sg, clause)
            what = "SPACE_GROUP_INFO[%d] = %s" % (sg, {x: tab[sg - 1][x] for x in ("bravais", "system", "pointgroup")})
            case = {"sg": sg}
        elif kind == "pos":
            p = tab[sg - 1]["pos"][k - 1]
            key = "wyckoff sg=%d letter=%s clause=%s" % (sg, p["letter"], clause)
            what = "WYCKOFF_SETS[%d][%r] fails %s" % (sg, p["letter"], clause)
            case = {"sg": sg, "position": p}
        else:
            n = tab[sg - 1]["norms"][k - 1]
            key = "normalizer sg=%d idx=%d clause=%s" % (sg, k - 1, clause)
            what = "CHIRALITY_PRESERVING_EUCLIDEAN_NORMALIZERS[%d][%d] fails %s" % (sg, k - 1, clause)
            case = {"sg": sg, "normalizer": n}
        run.violation(key, what, case)
    for g in tab:
        for p in g["pos"]:
            run.nontrivial(("pos", g["sg"], p["letter"]))
        for i, _ in enumerate(g["norms"]):
            run.nontrivial(("norm", g["sg"], i))
    run.sample({"task": "pos", "sg": 62, "position": tab[61]["pos"][2]})
    run.sample({"task": "norm", "sg": 62, "normalizer": tab[61]["norms"][0]})

    # ---- binding of the analyzer's look-ups: one crystal per group
    recs = []
    skipped = 0
    _TIER[0] = tier
    after = {}
    n_used = 0
    for o in pmap(_lookup, range(1, 231)):
        if "rows_error" in o:
            run.violation("table-after-use sg=%d unreadable" % o["sg"], "tables of group %d cannot be read after ordinary analyses: %s" % (
                o["sg"], o["rows_error"]), {"sg": o["sg"]})
        rows = o.pop("rows_after_use", None)
        n_used += o.pop("analyses_before_reexport", 0)
        if rows is not None and rows != tab[o["sg"] - 1]:
            after[o["sg"]] = rows
        if "skip" in o:
            skipped += 1
            continue
        if "error" in o:
            run.violation("lookup sg=%d raises" % o["sg"], "analyzer raised on a crystal of group %d: %s" % (o["sg"], o["error"]), o)
            continue
        for o_ in [o] + o.pop("more", []):
            if "error" in o_:
                run.violation("lookup sg=%d raises" % o_["sg"], "analyzer raised on a crystal of group %d: %s" % (o_["sg"], o_["error"]), o_)
                continue
            o_["tid"] = len(recs) + 1
            recs.append(o_)
    run.notes["lookup_crystals_skipped"] = skipped
    run.notes["analyses_run_before_tables_reexported"] = n_used
    run.notes["groups_whose_rows_changed_through_use"] = sorted(after)
    if after:
        # the rows that changed through use are judged by the same spec as the rows at import
        tab2 = [after.get(g["sg"], g) for g in tab]
        sd2 = os.path.join(d, "symdata_after_use.json")
        import json as _json

        _json.dump(tab2, open(sd2, "w"))
        res2 = tlc.run("SymTables.tla", "SymTables.cfg", env={"SYMDATA": sd2, "REFGROUPS": refgroups}, timeout=1500)
        run.add_model(res2, "SymTables on the tables as they are after ordinary use (%d groups changed)" % len(after))
        before_fail = {(kind, sg, k, clause) for kind, sg, k, clause in res.printed("FAIL")}
        for kind, sg, k, clause in res2.printed("FAIL"):
            if (kind, sg, k, clause) in before_fail or sg not in after or clause.startswith("HARNESS"):
                continue
            run.violation("after-use %s sg=%d idx=%d clause=%s" % (kind, sg, k - 1, clause),
                          "after ordinary analyses of crystals of group %d the built-in table row (%s %d) fails %s; it did not at import" % (
                              sg, kind, k - 1, clause), {"sg": sg, "rows_at_import": tab[sg - 1], "rows_after_use": after[sg]})
    tp = os.path.join(d, "info.ndjson")
    dump_ndjson(tp, recs)
    env["TRACE_FILE"] = tp
    tres = tlc.run("TraceSym.tla", "TraceSym.cfg", env=env)
    if tres.distinct != 2 * len(recs):
        raise MachineryError("TraceSym consumed %d of %d records" % (tres.distinct // 2, len(recs)))
    run.add_model(tres, "TraceSym info: %d crystals" % len(recs))
    run.traces(len(recs))
    run.count(len(recs))
    for tid, clause in tres.printed("FAIL"):
        r = recs[tid - 1]
        run.violation("lookup sg=%d clause=%s" % (r["sg"], clause),
                      "%s: analyzer reports %s for a crystal built in group %d" % (
                          clause, {x: r[x] for x in ("number", "system", "bravais", "pointgroup")}, r["sg"]), r)
    if recs:
        run.sample(recs[0])
    run.assume("reference = spglib Hall-symbol database, first Hall number of each type (origin choice 1, unique axis b, "
               "hexagonal axes); its group axioms, order, centring and metric invariance are re-checked in TLC (RefSane)",
               "letter naming (which orbit is called 'a') is bound only through the analyzer traces of C07, not here",
               "SameImage uses the dual-lattice test with annihilators of entries in -2..2 (DESIGN 4.7)")
    run.cov["rule"] = ("every row of the three tables is one TLC state evaluated against the reference group; "
                       "non-trivial = distinct Wyckoff positions and normalizers; plus one analyzer look-up trace per group")
    return run.finish()
