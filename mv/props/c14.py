"""C14 - built-in space-group tables vs. the International Tables.  Specs: SymGroup/SymTables/TraceSym."""
import os

from .. import export_data, tlc
from ..common import MachineryError, Run, dump_ndjson, pmap, scratch


def _lookup(sg):
    from .. import symobs

    c = symobs.find_crystal(sg)
    if c is None:
        return {"sg": sg, "skip": "no crystal generated"}
    try:
        o = symobs.obs_info(c["atoms"])
    except Exception as e:  # the analyzer must answer for a valid crystal
        return {"sg": sg, "error": "%s: %s" % (type(e).__name__, e), "letters": c["letters"]}
    o.update({"ev": "info", "sg": sg, "letters": c["letters"], "natoms": len(c["atoms"])})
    return o


def run(tier):
    run = Run("C14", tier, "model_checking")
    d = scratch("c14")
    symdata, refgroups, tab, ref = export_data.export_all(d)
    env = {"SYMDATA": symdata, "REFGROUPS": refgroups}

    # ---- exhaustive over the live tables (model = verdict, DESIGN 5 C14)
    res = tlc.run("SymTables.tla", "SymTables.cfg", env=env, timeout=1500)
    n_pos = sum(len(g["pos"]) for g in tab)
    n_norm = sum(len(g["norms"]) for g in tab)
    n_tasks = 230 + n_pos + n_norm
    if res.distinct != 2 * n_tasks:
        raise MachineryError("SymTables evaluated %d of %d table entries" % (res.distinct // 2, n_tasks))
    run.add_model(res, "SymTables: 230 info rows, %d Wyckoff positions, %d normalizers" % (n_pos, n_norm))
    run.count(n_tasks)
    run.cov["exhaustive"] = True
    for kind, sg, k, clause in res.printed("FAIL"):
        if clause.startswith("HARNESS"):
            raise MachineryError("reference group %d fails its own sanity check" % sg)
        if kind == "group":
            key = "info sg=%d clause=%s" % (sg, clause)
            what = "SPACE_GROUP_INFO[%d] = %s" % (sg, {x: tab[sg - 1][x] for x in ("bravais", "system", "pointgroup")})
            case = {"sg": sg}
        elif kind == "pos":
            p = tab[sg - 1]["pos"][k - 1]
            key = "wyckoff sg=%d letter=%s clause=%s" % (sg, p["letter"], clause)
            what = "WYCKOFF_SETS[%d][%r] fails %s" % (sg, p["letter"], clause)
            case = {"sg": sg, "position": p}
        else:
            n = tab[sg - 1]["norms"][k - 1]
            key = "normalizer sg=%d idx=%d clause=%s" % (sg, k - 1, clause)
            what = "CHIRALITY_PRESERVING_EUCLIDEAN_NORMALIZERS[%d][%d] fails %s" % (sg, k - 1, clause)
            case = {"sg": sg, "normalizer": n}
        run.violation(key, what, case)
    for g in tab:
        for p in g["pos"]:
            run.nontrivial(("pos", g["sg"], p["letter"]))
        for i, _ in enumerate(g["norms"]):
            run.nontrivial(("norm", g["sg"], i))
    run.sample({"task": "pos", "sg": 62, "position": tab[61]["pos"][2]})
    run.sample({"task": "norm", "sg": 62, "normalizer": tab[61]["norms"][0]})

    # ---- binding of the analyzer's look-ups: one crystal per group
    recs = []
    skipped = 0
    for o in pmap(_lookup, range(1, 231)):
        if "skip" in o:
            skipped += 1
            continue
        if "error" in o:
            run.violation("lookup sg=%d raises" % o["sg"], "analyzer raised on a crystal of group %d: %s" % (o["sg"], o["error"]), o)
            continue
        o["tid"] = len(recs) + 1
        recs.append(o)
    run.notes["lookup_crystals_skipped"] = skipped
    tp = os.path.join(d, "info.ndjson")
    dump_ndjson(tp, recs)
    env["TRACE_FILE"] = tp
    tres = tlc.run("TraceSym.tla", "TraceSym.cfg", env=env)
    if tres.distinct != 2 * len(recs):
        raise MachineryError("TraceSym consumed %d of %d records" % (tres.distinct // 2, len(recs)))
    run.add_model(tres, "TraceSym info: %d crystals" % len(recs))
    run.traces(len(recs))
    run.count(len(recs))
    for tid, clause in tres.printed("FAIL"):
        r = recs[tid - 1]
        run.violation("lookup sg=%d clause=%s" % (r["sg"], clause),
                      "%s: analyzer reports %s for a crystal built in group %d" % (
                          clause, {x: r[x] for x in ("number", "system", "bravais", "pointgroup")}, r["sg"]), r)
    if recs:
        run.sample(recs[0])
    run.assume("reference = spglib Hall-symbol database, first Hall number of each type (origin choice 1, unique axis b, "
               "hexagonal axes); its group axioms, order, centring and metric invariance are re-checked in TLC (RefSane)",
               "letter naming (which orbit is called 'a') is bound only through the analyzer traces of C07, not here",
               "SameImage uses the dual-lattice test with annihilators of entries in -2..2 (DESIGN 4.7)")
    run.cov["rule"] = ("every row of the three tables is one TLC state evaluated against the reference group; "
                       "non-trivial = distinct Wyckoff positions and normalizers; plus one analyzer look-up trace per group")
    return run.finish()
