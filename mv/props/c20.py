"""C20 - cell and frame helpers preserve the physical structure.  Spec: Helpers.tla (over Lattice.tla)."""
import os

import numpy as np

from .. import structures, tlc, zworld
from ..common import MachineryError, Run, dump_ndjson, pmap, rng_for, scratch


def e4(x):
    return np.rint(np.asarray(x, dtype=float) * 1e4).astype(np.int64).tolist()


def e6(x):
    return np.rint(np.asarray(x, dtype=float) * 1e6).astype(np.int64).tolist()


def jobs(tier):
    per = {"quick": 4, "thorough": 40}[tier]
    out = []
    for name in zworld.CELLS:
        for pbc in zworld.PBCS:
            for k in range(per):
                out.append(("scaled", name, list(pbc), k))
    for k in range(per * 40):
        out.append(("minimize", None, list(structures.PBCS[k % 8]), k))
        out.append(("com", None, list(structures.PBCS[k % 8]), k))
    for k in range(per * 10):
        out.append(("swap", None, list(structures.PBCS[k % 8]), k))
        out.append(("complete", None, None, k))
        out.append(("inertia", None, None, k))
    return out


def execute(job):
    import matid.geometry as g
    from ase import Atoms

    kind, name, pbc, k = job
    rng = rng_for("c20", kind, name, pbc, k)
    if kind == "scaled":
        cell = np.array(zworld.CELLS[name], dtype=np.int64)
        det = int(round(np.linalg.det(cell.astype(float))))
        n = int(rng.integers(1, 11))
        pos = rng.integers(-9, 15, (n, 3))  # inside or outside the cell
        C, P = cell.astype(float), pos.astype(float)
        # one of several valid encodings of the same arguments per record (ndarray / integer dtype / ase Cell / Fortran order /
        # read-only / non-contiguous; pbc as list, tuple or array): the clauses below judge the result whatever the encoding
        from .c10 import ENCODINGS, encode

        enc = ENCODINGS[int(rng.integers(len(ENCODINGS)))] if k else "baseline"
        Pa, Ca, pbca = encode(enc, P, C, pbc, unrotated=True)
        f = g.to_scaled(Ca, Pa)
        Pa, Ca, pbca = encode(enc, P, C, pbc, unrotated=True)
        w = g.to_scaled(Ca, Pa, wrap=True, pbc=pbca)
        Fa, Ca, _ = encode(enc if enc != "int_if_integral" else "baseline", np.array(f, dtype=float), C, pbc)
        back = g.to_cartesian(Ca, Fa)
        # to_cartesian(wrap=True): the cartesian image of the wrapped fractional coordinates (observed through to_scaled)
        # (to_cartesian wraps the caller's array in place, so a read-only array is not a valid argument for this call)
        Fa, Ca, pbca = encode(enc if enc not in ("int_if_integral", "readonly") else "baseline", np.array(f, dtype=float), C, pbc)
        wc = g.to_scaled(C.copy(), np.asarray(g.to_cartesian(Ca, Fa, wrap=True, pbc=pbca), dtype=float))
        f, w, back = np.asarray(f, dtype=float), np.asarray(w, dtype=float), np.asarray(back, dtype=float)
        wcd = np.asarray(wc, dtype=float) * det
        fd, wd = f * det, w * det
        resid = max(np.abs(fd - np.rint(fd)).max(), np.abs(wd - np.rint(wd)).max(), np.abs(back - np.rint(back)).max(),
                    np.abs(wcd - np.rint(wcd)).max())
        # wrapping may land on 1.0 - eps; rounding to the grid is fine since all values are multiples of 1/det
        # history: the same cell object is used again after it was changed in place (swap_basis -> Atoms.set_cell)
        from ase import Atoms as _Atoms

        at_h = _Atoms(numbers=[6] * n, positions=P, cell=C.copy(), pbc=pbc)
        g.to_scaled(at_h.cell, P.copy())
        ia, ib = int(rng.integers(0, 3)), int(rng.integers(0, 3))
        g.swap_basis(at_h, ia, ib)
        f_after = g.to_scaled(at_h.cell, P.copy())
        cell_after = np.rint(np.asarray(at_h.cell[:])).astype(int)
        det_after = int(round(np.linalg.det(cell_after.astype(float))))
        fa = f_after * det_after
        resid = max(resid if False else 0.0, float(np.abs(fa - np.rint(fa)).max()))
        hist = {"cell_after": cell_after.tolist(), "det_after": det_after, "fdet_after": np.rint(fa).astype(int).tolist(),
                "hist_exact": bool(resid < 1e-6)}
        return {"ev": "scaled", "cell": cell.tolist(), "det": det, "pbc": pbc, "pos": pos.tolist(), **hist,
                "fdet": np.rint(fd).astype(int).tolist(), "wdet": np.rint(wd).astype(int).tolist(), "wcdet": np.rint(wcd).astype(int).tolist(),
                "back": np.rint(back).astype(int).tolist(), "exact": bool(resid < 1e-6), "cfg": [kind, str(name), str(pbc), k, enc]}
    if kind in ("minimize", "com", "swap"):
        n = int(rng.integers(1, 11))
        cell = structures.random_cell(rng, ["orthogonal", "skewed", "sheared"][k % 3], float(rng.uniform(3, 10)))
        if k % 4 == 0:
            cell = cell @ structures.rotation(rng).T
        f = rng.uniform(-0.6, 1.6, (n, 3)) if k % 2 else rng.uniform(0.05, 0.95, (n, 3))
        at = Atoms(numbers=rng.choice([1, 6, 8, 29, 79], n), scaled_positions=None, positions=f @ cell, cell=cell, pbc=pbc)
    if kind == "minimize":
        axis = k % 3
        min_size = float(rng.choice([0.1, 0.5, 1.0, 3.0]))
        if k % 5 == 0:  # nearly flat system along the axis: padded
            ff = at.get_scaled_positions(wrap=False)
            ff[:, axis] = 0.4 + rng.uniform(-0.01, 0.01, len(at))
            at.set_scaled_positions(ff)
        old = at.copy()
        try:
            new = g.get_minimized_cell(at, axis, min_size)
        except Exception as e:
            return {"ev": "minimize", "error": "%s: %s" % (type(e).__name__, e), "cfg": [kind, str(name), str(pbc), k]}
        fr_old = np.linalg.solve(old.cell[:].T, old.positions.T).T[:, axis]
        extent = (fr_old.max() - fr_old.min()) * np.linalg.norm(old.cell[axis])
        fr_new = np.linalg.solve(new.cell[:].T, new.positions.T).T
        return {"ev": "minimize", "axis": axis + 1, "min_size": int(round(min_size * 1e4)), "extent": int(round(extent * 1e4)),
                "pos_old": e4(old.positions), "pos_new": e4(new.positions), "cell_old": e4(old.cell[:]), "cell_new": e4(new.cell[:]),
                "len_new": int(round(np.linalg.norm(new.cell[axis]) * 1e4)), "frac_new": e6(fr_new),
                "fmin_new": int(round(fr_new[:, axis].min() * 1e6)), "fmax_new": int(round(fr_new[:, axis].max() * 1e6)),
                "z_old": old.numbers.tolist(), "z_new": new.numbers.tolist(), "pbc_old": [bool(x) for x in old.pbc],
                "pbc_new": [bool(x) for x in new.pbc], "cfg": [kind, str(name), str(pbc), k]}
    if kind == "swap":
        a, b = int(rng.integers(0, 3)), int(rng.integers(0, 3))
        old = at.copy()
        g.swap_basis(at, a, b)
        return {"ev": "swap", "a": a + 1, "b": b + 1, "pos_old": e6(old.positions), "pos_new": e6(at.positions),
                "cell_old": e6(old.cell[:]), "cell_new": e6(at.cell[:]), "pbc_old": [bool(x) for x in old.pbc],
                "pbc_new": [bool(x) for x in at.pbc], "cfg": [kind, str(name), str(pbc), k]}
    if kind == "com":
        at.set_masses(rng.uniform(1, 60, len(at)))
        frac = lambda v: np.linalg.solve(at.cell[:].T, np.asarray(v)).T  # noqa: E731
        # resultant length of the circular mean: ill-conditioned samples are discarded
        sp = at.get_scaled_positions(wrap=False)
        m = at.get_masses()
        for kk in range(3):
            if pbc[kk]:
                R = abs(np.sum(m * np.exp(2j * np.pi * sp[:, kk]))) / m.sum()
                if R < 0.05:
                    return {"skip": "circular mean ill-conditioned"}
        com = frac(g.get_center_of_mass(at))
        t = rng.uniform(-4, 4, 3)
        a2 = at.copy()
        a2.translate(t)
        com_t = frac(g.get_center_of_mass(a2))
        a3 = at.copy()
        a3.positions += (rng.integers(-3, 4, (len(at), 3)) * np.array(pbc)[None, :]) @ at.cell[:]
        com_s = frac(g.get_center_of_mass(a3))
        return {"ev": "com", "pbc": pbc, "com": e6(com), "com_t": e6(com_t), "com_s": e6(com_s), "t": e6(frac(t)),
                "cfg": [kind, str(name), str(pbc), k]}
    if kind == "complete":
        a, b = rng.integers(-9, 10, 3), rng.integers(-9, 10, 3)
        if not np.cross(a, b).any():
            return {"skip": "parallel vectors"}
        length = float(rng.uniform(0.5, 12))
        c = np.asarray(g.complete_cell(a.astype(float), b.astype(float), length)).reshape(3)
        return {"ev": "complete", "a": a.tolist(), "b": b.tolist(), "c": e4(c), "len_c": int(round(np.linalg.norm(c) * 1e4)),
                "length": int(round(length * 1e4)), "cfg": [kind, str(name), str(pbc), k]}
    if kind == "inertia":
        n = int(rng.integers(1, 5))
        pos = rng.integers(0, 7, (n, 3))
        m = rng.integers(1, 6, n)
        weight = bool(k % 2)
        fr = zworld.Frame(rng, rotate=k % 3 != 0)
        # finite system in a non-singular (rotated, sheared) cell: centre = mass-weighted mean
        cell = fr.to_code(np.array(zworld.CELLS[["cubic3", "triclinic", "sheared"][k % 3]]) * 4)
        at = Atoms(numbers=[6] * n, positions=fr.to_code(pos), cell=cell, pbc=False)
        at.set_masses(m.astype(float))
        rec = {"ev": "inertia", "pos": pos.tolist(), "m": m.tolist(), "weight": weight, "cfg": [kind, str(name), str(pbc), k],
               "error": "", "evals3": [0, 0, 0], "evecs3": [[0, 0, 0]] * 3}
        try:
            evals, evecs = g.get_moments_of_inertia(at, weight=weight)
            rec["evals3"] = np.rint(np.asarray(evals) / fr.s ** 2 * 1000).astype(np.int64).tolist()
            rec["evecs3"] = np.rint(np.asarray(evecs).T * 1000).astype(np.int64).tolist()
        except Exception as e:
            rec["error"] = "%s: %s" % (type(e).__name__, str(e)[:120])
        return rec
    raise ValueError(kind)


def run(tier):
    run = Run("C20", tier, "model_checking")
    d = scratch("c20")
    recs = pmap(execute, jobs(tier), chunksize=16)
    keep, skipped = [], 0
    for r in recs:
        if "skip" in r:
            skipped += 1
            continue
        if "error" in r and r["ev"] != "inertia":
            run.violation("C20 %s raises" % r["ev"], "%s raised %s (cfg %s)" % (r["ev"], r["error"], r["cfg"]), r)
            continue
        r["tid"] = len(keep) + 1
        keep.append(r)
    run.notes["skipped"] = skipped
    run.count(len(keep))
    tp = os.path.join(d, "helpers.ndjson")
    dump_ndjson(tp, keep)
    res = tlc.run("Helpers.tla", "Helpers.cfg", env={"TRACE_FILE": tp}, timeout=1800)
    if res.distinct != 2 * len(keep):
        raise MachineryError("Helpers consumed %d of %d records" % (res.distinct // 2, len(keep)))
    run.add_model(res, "Helpers: %d recorded calls" % len(keep))
    run.traces(len(keep))
    for tid, clause in res.printed("FAIL"):
        r = keep[tid - 1]
        if clause.startswith("HARNESS"):
            raise MachineryError("harness inconsistency %s on %s" % (clause, r["cfg"]))
        # categorical key: function + clause (+ the categorical part of the configuration)
        key = "C20 %s clause=%s pbc=%s variant=%s" % (r["ev"], clause, r["cfg"][2], r["cfg"][3] % 6 if r["ev"] != "inertia" else r.get("weight"))
        run.violation(key, "%s: %s (cfg %s)" % (r["ev"], clause, r["cfg"]), r)
    by = {}
    for r in keep:
        by[r["ev"]] = by.get(r["ev"], 0) + 1
        run.nontrivial((r["ev"], r["tid"]))
    run.notes["events"] = by
    for ev in by:
        for r in keep:
            if r["ev"] == ev:
                run.sample(r)
                break
    run.assume("to_scaled/to_cartesian/wrapping judged exactly in the rational world; lengths and centres as scaled scalars with +-2e-3 A / +-2e-4 fractional tolerance written in the spec",
               "inertia: returns-normally, trace identity (recomputed in the spec from integer positions and masses), orthonormal eigenvectors, ordering; "
               "the full eigen-equation is not evaluated (32-bit integers in TLC) - numeric accuracy is out of scope for this technique",
               "centre-of-mass samples whose circular mean is ill-conditioned (resultant < 0.05) are discarded and counted")
    run.cov["rule"] = "random 1-10 atom systems inside/outside arbitrary cells (orthogonal, skewed, sheared, rotated) x 8 pbc x 3 axes x min_size; integer cell catalogue for the exact clauses; every call is non-trivial"
    return run.finish()
