"""C01 - SBC returns a well-formed, disjoint, connected set of clusters.
Specs: SBC.tla (design model, exhaustive), TraceSBC.tla (replay of real executions through the model's
actions), TraceSBCVerdict.tla (property predicates on the public-API observations)."""
import json
import os

from .. import sbcrun, structures, tlc
from ..common import MachineryError, Run, dump_ndjson, pmap, scratch

PARAM_VARIANTS = [
    {},
    {"bond_threshold": 0.4, "radii": "covalent"},
    {"pos_tol": 0.3, "max_cell_size": 4},
    {"merge_threshold": 0.25, "radii": "vdw_covalent", "bond_threshold": 0.1},
    {"merge_threshold": 0.8, "pos_tol": 1.0},
    {"radii": "custom", "bond_threshold": 0.9},
    {"seed": 3, "max_cell_size": 8},
]


def jobs_for(tier, dims=False):
    fam = structures.c01_family(tier)
    jobs = []
    for k, (kind, desc) in enumerate(fam):
        variants = [PARAM_VARIANTS[0], PARAM_VARIANTS[1 + k % (len(PARAM_VARIANTS) - 1)]] if tier == "thorough" else [
            PARAM_VARIANTS[k % len(PARAM_VARIANTS)]]
        for params in variants:
            jobs.append((kind, desc, params, {"rigid": kind not in ("degen",) and k % 2 == 0, "dims": dims, "rerun": True, "history": kind not in ("gas", "degen", "mol") or k % 4 == 0}))
    return jobs


def model_layer(run, tier):
    res = tlc.run("SBC.tla", "SBC_mc3.cfg", timeout=1800)
    if res.violated:
        raise MachineryError("design model SBC.tla violates %s at N=3 (model and code must be re-examined)\n%s" % (
            res.violated, "\n".join(res.trace[-3:])))
    run.add_model(res, "SBC_mc3: every environment answer, species map, Bond/Near relation for N=3 atoms")
    # unbounded counterpart of PairwiseDisjoint: TLAPS proof of the localize loop for arbitrary N and K; SBC.tla's
    # LocalizeStep is checked by TLC to be an instance of the proved step (PROPERTY LocalizeRefinesProvedStep)
    from .. import tlaps

    pr = tlaps.prove("Localize.tla")
    run.notes["tlaps_localize_loop"] = pr
    if not pr["all_proved"]:
        run.model_drift("TLAPS did not prove all obligations of proofs/Localize.tla (%s of %s)" % (pr["proved"], pr["obligations"]))
    if tier == "thorough":
        # liveness: get_clusters returns (the merge work-list and the counting loops end) under weak fairness of its own steps
        res = tlc.run("SBC.tla", "SBC_live3.cfg", timeout=1800, must_pass=False)
        if res.violated or res.error:
            run.model_drift("SBC.tla Terminates not established at N=3: %s" % (res.violated or res.error))
        else:
            run.add_model(res, "SBC_live3: <>(pc = done) under WF(Pipeline), N=3")
        # bounded by time (a loaded machine must not turn exploration depth into a failure): reported as far as it got
        res = tlc.run("SBC.tla", "SBC_sim4.cfg", simulate={"num": 150000, "depth": 60, "seed": 11}, timeout=1200, must_pass=False)
        if res.violated:
            raise MachineryError("design model SBC.tla violates %s in simulation N=4" % res.violated)
        if res.error and "timeout" not in res.error:
            raise MachineryError("SBC_sim4: %s" % res.error)
        run.add_model(res, "SBC_sim4: random behaviours for N=4 atoms (%s)" % ("complete" if res.rc == 0 else "stopped by the time limit"))
        # exhaustive N=4 is ~1e8+ states: bounded by time, reported as far as it got (BFS, so all shallow behaviours first)
        res = tlc.run("SBC.tla", "SBC_mc4.cfg", timeout=900, must_pass=False, heap="24g")
        if res.violated:
            raise MachineryError("design model SBC.tla violates %s at N=4" % res.violated)
        run.add_model(res, "SBC_mc4: breadth-first exploration for N=4 atoms (%s)" % ("complete" if res.rc == 0 else "stopped by the time limit"))


def replay_layer(run, recs, d):
    """code -> spec: every recorded execution is replayed through SBC.tla's actions"""
    sub = [r for r in recs if r.get("events") is not None and "bondC" in r and r.get("error") == ""]
    if not sub:
        return
    tp = os.path.join(d, "replay.ndjson")
    dump_ndjson(tp, sub)
    res = tlc.run("TraceSBC.tla", "TraceSBC.cfg", env={"TRACE_FILE": tp}, must_pass=False, timeout=1800,
                  extra=("-continue",))
    if res.error:
        run.model_drift("TraceSBC could not be evaluated: %s" % res.error[:300])
        return
    run.add_model(res, "TraceSBC: %d executions replayed through the model's actions" % len(sub))
    accepted = {x[0] for x in res.printed("ACCEPT")}
    run.traces(len(accepted))
    run.notes["replay_accepted"] = len(accepted)
    run.notes["replay_total"] = len(sub)
    for r in sub:
        if r["tid"] not in accepted:
            run.model_drift("execution tid=%d (%s %s) is not a behaviour of SBC.tla" % (r["tid"], r["kind"], str(r["desc"])[:300]))
    if res.violated and res.violated != "deadlock":
        run.model_drift("replayed execution violates model invariant %s" % res.violated)


def scripted_layer(run, tier):
    """spec -> code: TLC-generated behaviours replayed into the real pipeline (scripted environment)"""
    from .. import sbcscript
    from ..common import seed as vseed

    num = 150 if tier == "quick" else 2500
    res = tlc.run("SBCScript.tla", "SBCScript.cfg", simulate={"num": num, "depth": 60, "seed": 1000 + vseed()},
                  timeout=1800, must_pass=False)
    if res.error or res.violated:
        raise MachineryError("SBCScript simulation failed: %s %s" % (res.error, res.violated))
    run.add_model(res, "SBCScript: simulated behaviours of the design model, N=4")
    scripts = sbcscript.parse_scripts(res.out)
    recs = pmap(sbcscript.replay, scripts, chunksize=64)
    run.notes["scripted_behaviours"] = len(recs)
    run.notes["scripted_desync"] = sum(1 for r in recs if r["desync"])
    return recs


def run(tier):
    run = Run("C01", tier, "model_checking")
    d = scratch("c01")
    model_layer(run, tier)
    jobs = jobs_for(tier)
    recs = pmap(sbcrun.execute, jobs) + scripted_layer(run, tier)
    skipped = 0
    keep = []
    for r in recs:
        if "skip" in r:
            skipped += 1
            continue
        r["tid"] = len(keep) + 1
        r["error"] = r["error"] or ""
        r.setdefault("rerun", [])
        r.setdefault("rerun_history", [])
        r["history_run"] = bool(r.get("history_run") or r.get("rerun_history_error"))
        r.setdefault("adjC", [])
        r.setdefault("adjM", [])
        keep.append(r)
    run.notes["skipped"] = skipped
    run.count(len(keep))
    tp = os.path.join(d, "verdict.ndjson")
    dump_ndjson(tp, keep)
    res = tlc.run("TraceSBCVerdict.tla", "TraceSBCVerdict.cfg", env={"TRACE_FILE": tp, "MODE": "C01"}, timeout=1800)
    if res.distinct != 2 * len(keep):
        raise MachineryError("TraceSBCVerdict consumed %d of %d records" % (res.distinct // 2, len(keep)))
    run.add_model(res, "TraceSBCVerdict(C01): %d executions" % len(keep))
    for tid, clause in res.printed("FAIL"):
        r = keep[tid - 1]
        if r["kind"] == "scripted":
            # seed independent: the behaviour itself (environment answers and relations) is the key
            key = "C01 clause=%s scripted=%s" % (clause, json.dumps(r["desc"], sort_keys=True))
        else:
            key = "%s clause=%s kind=%s desc=%s params=%s" % ("C01", clause, r["kind"], sorted(r["desc"].items()), sorted(r["params"].items()))
        run.violation(key, "%s violated by get_clusters on %s %s (n=%d, clusters=%s, error=%r)" % (
            clause, r["kind"], r["desc"], r["n"], [len(c["idx"]) for c in r["final"]], r.get("error_msg")),
            {k: v for k, v in r.items() if k not in ("adjC", "adjM", "bondC", "nearC", "events")})
    replay_layer(run, keep, d)
    # non-triviality: executions in which the pipeline had something to do
    for r in keep:
        ev = r.get("events") or []
        nseed = sum(1 for e in ev if e["ev"] == "seed" and e["has"])
        if len(r["final"]) >= 1:
            run.nontrivial(("clusters", r["tid"]))
        snaps = {e["ev"]: e for e in ev if e["ev"] != "seed"}
        if "merged" in snaps and nseed > len(snaps["merged"]["clusters"]):
            run.notes["executions_with_merge"] = run.notes.get("executions_with_merge", 0) + 1
        if "localized" in snaps and "merged" in snaps and snaps["localized"]["clusters"] != snaps["merged"]["clusters"]:
            run.notes["executions_with_overlap_resolution"] = run.notes.get("executions_with_overlap_resolution", 0) + 1
        if "cleaned" in snaps and "localized" in snaps and [c["idx"] for c in snaps["cleaned"]["clusters"]] != [c["idx"] for c in snaps["localized"]["clusters"]]:
            run.notes["executions_where_cleaning_removed_atoms"] = run.notes.get("executions_where_cleaning_removed_atoms", 0) + 1
    for r in keep[:400:97]:
        run.sample({k: r[k] for k in ("kind", "desc", "params", "n", "final", "error")})
    run.assume("Connected is judged against an independent bonding graph (ASE minimum-image distances, harness' own radii); "
               "pairs within 1e-6 of the threshold count as bonded (ambiguity rule)",
               "PeriodicFinder.get_region is the environment of the model; its answers are recorded, not modelled",
               "replay mismatches are MODEL-DRIFT (exit 0), never violations")
    run.cov["rule"] = ("C01 family: gases (8 pbc x 3 cell shapes x sizes), defective/rattled/substituted crystal blocks, slabs with adsorbates, "
                       "two-material stacks, two crystallites, molecules in a box, degenerate cells; parameter variants; "
                       "non-trivial = executions that returned at least one cluster")
    return run.finish()
