"""C02 - SBC groups a single crystal (bulk or slab) into exactly one complete cluster.
Specs: TraceSBCVerdict.tla (V02: ExpectedPartition, ExpectedDimensionality); pipeline part in SBC.tla
(a region answer covering all atoms yields one cluster: checked in every replayed execution by TraceSBC)."""
import os

import numpy as np

from .. import crystalfam, structures, tlc, tracer
from ..common import MachineryError, Run, dump_ndjson, pmap, scratch
from ..common import rng_pinned as rng_for


def execute(job):
    from matid.clustering import SBC

    desc, stream = job
    atoms, dim, why = crystalfam.build_c02(desc)
    if atoms is None:
        return {"skip": why, "desc": desc}
    rng = rng_for("c02run", sorted((k, str(v)) for k, v in desc.items()), stream)
    base = atoms
    atoms, perm = structures.rigid(atoms, rng, translate=False)
    # translation by an arbitrary vector (up to +-1.5 cell vectors: the whole structure may lie outside the cell)
    atoms.translate(rng.uniform(-1.5, 1.5, 3) @ atoms.cell[:])
    seed = int(rng.integers(0, 1000))
    rec = {"desc": {k: (list(v) if isinstance(v, tuple) else v) for k, v in desc.items()}, "stream": stream, "n": len(atoms), "seed": seed,
           "expected": [list(range(1, len(atoms) + 1))], "expected_dim": dim, "error": "", "final": [], "dims": []}
    try:
        sbc = SBC()
        if stream % 2 == 0:
            # history: the same clustering object was used before on another arrangement of the same atoms in the same cell
            prev = atoms[rng.permutation(len(atoms))]
            prev.translate(rng.uniform(-2, 2, 3))
            sbc.get_clusters(prev, seed=seed + 1)
        clusters = sbc.get_clusters(atoms, seed=seed)
    except Exception as e:
        rec["error"] = "%s: %s" % (type(e).__name__, str(e)[:160])
        return rec
    rec["final"] = [{"idx": sorted(int(i) + 1 for i in c.indices)} for c in clusters]
    for c in clusters:
        try:
            d = c.get_dimensionality()
        except Exception:
            d = -9
        rec["dims"].append({"shortcut": -1 if d is None else int(d)})
    return rec


def run_expected(pid, tier, jobs, fn, mode, describe):
    run = Run(pid, tier, "exploration")
    d = scratch(pid.lower())
    recs = pmap(fn, jobs, chunksize=1)
    keep, skipped = [], {}
    for r in recs:
        if "skip" in r:
            skipped[r["skip"]] = skipped.get(r["skip"], 0) + 1
            continue
        r["tid"] = len(keep) + 1
        keep.append(r)
    run.notes["descriptors_skipped_by_precondition"] = skipped
    run.count(len(keep))
    tp = os.path.join(d, "verdict.ndjson")
    dump_ndjson(tp, keep)
    res = tlc.run("TraceSBCVerdict.tla", "TraceSBCVerdict.cfg", env={"TRACE_FILE": tp, "MODE": mode}, timeout=1800)
    if res.distinct != 2 * len(keep):
        raise MachineryError("TraceSBCVerdict consumed %d of %d records" % (res.distinct // 2, len(keep)))
    run.add_model(res, "TraceSBCVerdict(%s): %d executions" % (mode, len(keep)))
    run.traces(len(keep))
    for tid, clause in res.printed("FAIL"):
        r = keep[tid - 1]
        key = "%s clause=%s %s" % (pid, clause, describe(r))
        run.violation(key, "%s: clusters %s dims %s (n=%d, seed=%d, error=%r)" % (
            clause, [len(c["idx"]) for c in r["final"]], [x["shortcut"] for x in r["dims"]], r["n"], r["seed"], r["error"]), r)
    for r in keep:
        run.nontrivial(describe(r))
    for r in keep[:3]:
        run.sample({k: r[k] for k in ("desc", "n", "seed", "expected_dim", "dims") if k in r} | {"clusters": [len(c["idx"]) for c in r["final"]]})
    return run


def run(tier):
    descs = crystalfam.c02_descriptors(tier)
    jobs = [(dsc, s) for dsc in descs for s in ([0] if tier == "quick" else [0, 1, 2])]
    run = run_expected("C02", tier, jobs, execute, "C02",
                       lambda r: "name=%s form=%s facet=%s layers=%s pbc_z=%s noise=%s" % (
                           r["desc"]["name"], r["desc"]["form"], r["desc"].get("facet"), r["desc"].get("layers"), r["desc"].get("pbc_z"), r["desc"].get("noise")))
    rr = tlc.run("Region.tla", "Region_mc.cfg")
    if rr.violated:
        raise MachineryError("Region.tla design model violates %s" % rr.violated)
    run.add_model(rr, "Region_mc: the breadth-first region tracking reaches every atom of an ideal crystal exactly once (Complete, EachAtomOnce, NoOverride), every seed position")
    run.assume("precondition (independent, margin 0.15 A): primitive cell <= 6 atoms and vectors < 6 A; bonded network of rank 3 / 2; no overlap; periodic heights > 12 A; descriptors failing it are skipped and counted",
               "PeriodicFinder's float heuristics are observed, not modelled: the decision on each explored input is made by TLC on the recorded outcome")
    run.cov["rule"] = "reference elements (fcc/bcc/hcp/diamond/sc) and compound prototypes as bulk supercells or 3-4 layer slabs (TTT/TTF), noise 0/0.02/0.05, random rotation, translation, permutation, seed; non-trivial = distinct descriptors"
    return run.finish()
