"""C06 - symmetry results are a normal form.  Specs: Crystal.tla (V06), GroundState.tla (selection core)."""
from ..common import Run, scratch
from . import symcommon


def run(tier):
    run = Run("C06", tier, "model_checking")
    d = scratch("c06")
    from . import groundstate

    groundstate.model_layer(run, tier, d)
    streams = [0] if tier == "quick" else [0, 1, 2]
    jobs = [(sg, s, 4 if tier == "quick" else 6, None, 40, "C06") for sg in range(1, 231) for s in streams]
    # origin moves: every letter of every group occupied once, presented with its origin moved by the special translations by
    # which alternative origins differ (quick: the body diagonal and one more, thorough: six)
    from .. import crystals
    for sg in range(1, 231):
        letters = sorted(crystals._wyckoff_table(sg))
        for L in letters:
            jobs.append((sg, 7, 3 if tier == "quick" else 7, [L], 40, "C06", True))
    recs = symcommon.collect(run, jobs)
    symcommon.judge(run, recs, "C06", d, lambda r, c: (
        "C06 clause=%s sg=%d letters=%s species=%s p_index=%s" % (c, r["sg"], r["gen_letters"], r["gen_species"], r["pres"].get("p_index")),
        "%s: presentation %s reports id=%s sets=%s" % (c, r["pres"], r["id"], [(s["letter"], s["z"], s["mult"]) for s in r["sets"]])))
    for r in recs:
        if r["j"] > 0:
            run.nontrivial((r["cid"], r["pres"].get("p_index"), r["j"]))
    symcommon.sample(run, recs)
    run.assume("presentations: catalogue of basis changes / supercells |det|<=4, random proper rotation, translation in [-5,5] A, permutation, unwrapped atoms",
               "origin moves that permute equivalent Wyckoff sites are forced exhaustively in the selection core (GroundState.tla), since spglib alone would not produce every origin")
    run.cov["rule"] = "C05 crystal family x 4-6 presentations each; non-trivial = distinct non-first presentations"
    return run.finish()
