"""Full observation of SymmetryAnalyzer on one structure, projected to integers/strings for Crystal.tla.
Public API only.  Independent references (a second spglib search on returned structures, spglib's own
standardization of the input) are recorded next to the observations; judging is done in TLA+."""
import numpy as np

from .crystals import Q, TOL, qgrid

E4 = 10000


def _params(cell):
    from ase.geometry import cell_to_cellpar

    p = cell_to_cellpar(np.asarray(cell))
    return [int(round(float(x) * E4)) for x in p]


def _spg(atoms, tol):
    import spglib

    return spglib.get_symmetry_dataset((atoms.cell[:], atoms.get_scaled_positions(), atoms.numbers), tol)


def _enc_param(v):
    return -1 if v is None else int(round(float(v) * Q)) % Q


def observe(atoms, tol=TOL, order=None, with_params=True, reuse=None, keep=None):
    """order: optional list of getter names called first; reuse: an analyzer object that already analysed another
    structure and is given this one through set_system (history independence, Analyzer.tla)."""
    from matid.symmetry import SymmetryAnalyzer

    if reuse is not None:
        an = reuse
        an.set_system(atoms)
    else:
        # documented signature (system, symmetry_tol, min_2d_thickness): by position for every second structure
        an = SymmetryAnalyzer(atoms, tol) if len(atoms) % 2 else SymmetryAnalyzer(atoms, symmetry_tol=tol)
    if keep is not None:
        keep.append(an)
    # every public getter is read ONCE, and what it returned the first time is what the clauses judge: with `order` some
    # getters are read before the others (before the analyzer has computed anything else), so an answer that depends on
    # which getters were called earlier shows up in the ordinary clauses
    first = {}
    real_an = an

    class _An:
        def __getattr__(self, name):
            real = getattr(real_an, name)
            if not name.startswith("get_"):
                return real

            def call(*a, **kw):
                key = (name, a, tuple(sorted(kw.items())))
                if key not in first:
                    first[key] = real(*a, **kw)
                return first[key]

            return call

    an = _An()
    for name in order or []:
        if name == "get_wyckoff_sets_conventional":
            an.get_wyckoff_sets_conventional(return_parameters=False)
        else:
            getattr(an, name)()
    o = {"reused_analyzer": reuse is not None, "in_det_sign": int(np.sign(np.linalg.det(atoms.get_cell()[:]))), "n_in": len(atoms), "vol_in": int(round(atoms.get_volume() * 1000)), "tol6": int(round(tol * 1e6))}
    o["number"] = int(an.get_space_group_number())
    o["hall"] = int(an.get_hall_number())
    o["pointgroup"] = str(an.get_point_group())
    o["bravais"] = str(an.get_bravais_lattice())
    o["system"] = str(an.get_crystal_system())
    o["id"] = str(an.get_material_id())
    o["has_free"] = bool(an.get_has_free_wyckoff_parameters())
    o["chiral"] = bool(an.get_is_chiral())
    conv = an.get_conventional_system()
    o["conv"] = {"n": len(conv), "z": [int(z) for z in conv.get_atomic_numbers()], "pos": qgrid(conv.get_scaled_positions()),
                 "par": _params(conv.get_cell()[:]), "vol": int(round(conv.get_volume() * 1000)),
                 "pbc": [bool(x) for x in conv.get_pbc()],
                 "det_sign": int(np.sign(np.linalg.det(conv.get_cell()[:])))}
    lens = np.linalg.norm(conv.get_cell()[:], axis=1)
    o["eps_tol"] = int(np.ceil(tol / lens.min() * Q)) + 8
    sets = an.get_wyckoff_sets_conventional(return_parameters=False)
    o["sets"] = [{"letter": str(s.wyckoff_letter), "z": int(s.atomic_number), "mult": int(s.multiplicity),
                  "idx": [int(i) + 1 for i in s.indices]} for s in sets]
    if with_params:
        try:
            psets = an.get_wyckoff_sets_conventional(return_parameters=True)
            o["psets"] = [{"letter": str(s.wyckoff_letter), "z": int(s.atomic_number), "idx": [int(i) + 1 for i in s.indices],
                           "x": _enc_param(s.x), "y": _enc_param(s.y), "z_": _enc_param(s.z),
                           "raw": [None if v is None else float(v) for v in (s.x, s.y, s.z)],
                           "rep": [str(c) for c in s.representative]} for s in psets]
            for ps in o["psets"]:
                ps["in_unit"] = all(v is None or (0 <= v < 1) for v in ps.pop("raw"))
            o["psets_error"] = ""
        except Exception as e:
            o["psets"] = []
            o["psets_error"] = "%s: %s" % (type(e).__name__, str(e)[:160])
    o["let_conv"] = [str(x) for x in an.get_wyckoff_letters_conventional()]
    o["eq_conv"] = [int(x) for x in an.get_equivalent_atoms_conventional()]
    prim = an.get_primitive_system()
    o["prim"] = {"n": len(prim), "z": [int(z) for z in prim.get_atomic_numbers()], "vol": int(round(prim.get_volume() * 1000))}
    o["let_prim"] = [str(x) for x in an.get_wyckoff_letters_primitive()]
    o["eq_prim"] = [int(x) for x in an.get_equivalent_atoms_primitive()]
    o["let_orig"] = [str(x) for x in an.get_wyckoff_letters_original()]
    o["eq_orig"] = [int(x) for x in an.get_equivalent_atoms_original()]
    o["z_orig"] = [int(z) for z in atoms.get_atomic_numbers()]
    # the spglib dataset the analyzer worked from (public getter): bound to the returned per-atom labels by Crystal!DatasetCarried,
    # the trace counterpart of the design model Mappings.tla
    try:
        ds = an.get_symmetry_dataset()
        o["ds"] = {"has": True, "wy": [str(x) for x in ds.wyckoffs], "orb": [int(x) for x in ds.crystallographic_orbits],
                   "m2p": [int(x) for x in ds.mapping_to_primitive], "s2p": [int(x) for x in ds.std_mapping_to_primitive],
                   "std_types": [int(x) for x in ds.std_types]}
    except Exception as e:
        o["ds"] = {"has": False, "why": "%s: %s" % (type(e).__name__, str(e)[:80]), "wy": [], "orb": [], "m2p": [], "s2p": [], "std_types": []}
    # ---- independent references
    import spglib

    dsc = _spg(conv, tol)
    o["ind_conv"] = {"number": -1 if dsc is None else int(dsc.number)}
    if dsc is not None:
        ident = bool(np.allclose(dsc.transformation_matrix, np.eye(3), atol=1e-6) and
                     np.allclose(np.asarray(dsc.origin_shift) % 1.0 % 1.0, 0, atol=1e-6) or
                     np.allclose(dsc.transformation_matrix, np.eye(3), atol=1e-6) and
                     np.allclose((np.asarray(dsc.origin_shift) + 0.5) % 1.0 - 0.5, 0, atol=1e-6))
        o["ind_conv"]["identity"] = ident
        o["ind_conv"]["letters"] = [str(x) for x in dsc.wyckoffs]
        o["ind_conv"]["hall"] = int(dsc.hall_number)
    else:
        o["ind_conv"].update({"identity": False, "letters": [], "hall": -1})
    dsp = _spg(prim, tol)
    o["ind_prim"] = {"number": -1 if dsp is None else int(dsp.number)}
    fp = spglib.find_primitive((prim.cell[:], prim.get_scaled_positions(), prim.numbers), tol)
    o["ind_prim"]["n_primitive"] = -1 if fp is None else int(len(fp[2]))
    dsi = _spg(atoms, tol)
    std_cell = np.asarray(dsi.std_lattice)
    o["std"] = {"z": [int(z) for z in dsi.std_types], "pos": qgrid(dsi.std_positions), "par": _params(std_cell),
                "detP_sign": int(np.sign(np.linalg.det(dsi.transformation_matrix))), "number": int(dsi.number),
                "det_sign": int(np.sign(np.linalg.det(std_cell)))}
    return o


def congruence_hint(o, holo):
    """numerical search for a proper lattice automorphism A (from the list holo of integer matrices) and a
    translation t (Q units) with A.conv + t = std as labelled sets; the hint is *verified* in TLA+."""
    cz, cp = np.array(o["conv"]["z"]), np.array(o["conv"]["pos"], dtype=np.int64)
    sz, sp = np.array(o["std"]["z"]), np.array(o["std"]["pos"], dtype=np.int64)
    if len(cz) != len(sz):
        return None
    zs, counts = np.unique(cz, return_counts=True)
    za = zs[np.argmin(counts)]
    a0 = cp[np.flatnonzero(cz == za)[0]]

    def close(p, q):
        d = (p - q) % Q
        d = np.minimum(d, Q - d)
        return np.all(d <= 8, axis=-1)

    for A in holo:
        A = np.array(A, dtype=np.int64)
        if round(np.linalg.det(A)) != 1:
            continue
        img = (cp @ A.T) % Q
        i0 = (A @ a0) % Q
        for j in np.flatnonzero(sz == za):
            t = (sp[j] - i0) % Q
            moved = (img + t) % Q
            ok = True
            used = np.zeros(len(sz), bool)
            for k in range(len(cz)):
                m = close(moved[k][None, :], sp) & (sz == cz[k]) & ~used
                if not m.any():
                    ok = False
                    break
                used[np.flatnonzero(m)[0]] = True
            if ok:
                return {"A": A.tolist(), "t": [int(x) for x in t]}
    return None
