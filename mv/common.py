"""Shared plumbing of the /verif checks: paths, seeds, evidence, verdict protocol.

Verdict protocol (DESIGN 2.2):
  * VIOLATION  - a property predicate is false on a real execution / live table  -> exit 1
  * KNOWN-FINDING - same, but the categorical key is listed in known_findings.json with
                    status "known"                                              -> exit 0
  * MODEL-DRIFT - algorithm model and code disagree, property still true        -> exit 0
  * machinery failure (TLC crash, build failure, vacuous run)                    -> exit 2
"""
import hashlib
import json
import os
import sys
import time
import zlib

ROOT = os.path.dirname(os.path.dirname(os.path.abspath(__file__)))
REPO = os.environ.get("MATID_REPO", "/repo")
SPEC = os.path.join(ROOT, "spec")
CACHE = os.path.join(ROOT, ".cache")
EVID = os.environ.get("VERIF_EVIDENCE_DIR") or os.path.join(ROOT, "evidence")
REPLAY = os.path.join(EVID, "replay")
NCPU = min(16, os.cpu_count() or 1)


class MachineryError(Exception):
    pass


def seed():
    try:
        return int(os.environ.get("VERIF_SEED", "0"))
    except ValueError:
        return 0


def crc(s):
    return zlib.crc32(str(s).encode())


def rng_for(*descr):
    import numpy as np

    return np.random.default_rng([seed() & 0xFFFFFFFF] + [crc(d) for d in descr])


def rng_pinned(*descr):
    """RNG that depends on the descriptor only, NOT on VERIF_SEED.  Used by the recognition properties
    (C02, C03, C04, C18) whose subject is heuristic code: every explored input is then a fixed, reproducible
    input identified by its descriptor, so a genuine finding can be listed by key and a different failing
    input is still reported (DESIGN 3.6)."""
    import numpy as np

    return np.random.default_rng([20261002] + [crc(d) for d in descr])


def scratch(name):
    d = os.path.join(CACHE, "run", "%s-%d" % (name, os.getpid()))
    os.makedirs(d, exist_ok=True)
    return d


def load_known():
    p = os.path.join(ROOT, "known_findings.json")
    if not os.path.exists(p):
        return []
    return json.load(open(p))["findings"]


class Run:
    """Collects what one check run covered and decides the exit status."""

    def __init__(self, pid, tier, level):
        self.pid = pid
        self.tier = tier
        self.level = level
        self.t0 = time.time()
        self.cov = {"evaluations": 0, "distinct_nontrivial": 0, "samples": []}
        self.assumptions = []
        self.violations = []  # (key, what, replay_path)
        self.known_hit = []
        self.drift = []
        self.notes = {}
        self._known = [k for k in load_known() if k["property"] == pid]
        self._seen_keys = set()
        self._distinct = set()

    # ---- counting helpers
    def count(self, n=1):
        self.cov["evaluations"] += n

    def nontrivial(self, key):
        self._distinct.add(key if isinstance(key, (str, int, tuple)) else json.dumps(key, sort_keys=True))

    def sample(self, obj, cap=6):
        if len(self.cov["samples"]) < cap:
            self.cov["samples"].append(obj)

    def add_model(self, res, label):
        """Accumulate TLC exploration numbers (res: tlc.TLCResult)."""
        self.cov["states"] = self.cov.get("states", 0) + res.distinct
        self.cov["transitions"] = self.cov.get("transitions", 0) + res.generated
        self.notes.setdefault("tlc_runs", []).append(
            {"label": label, "distinct_states": res.distinct, "states_generated": res.generated,
             "wall_s": round(res.wall, 2), "mode": res.mode}
        )

    def traces(self, n):
        self.cov["traces_validated_against_impl"] = self.cov.get("traces_validated_against_impl", 0) + n

    def assume(self, *txt):
        for t in txt:
            if t not in self.assumptions:
                self.assumptions.append(t)

    # ---- verdicts
    def violation(self, key, what, replay=None):
        """key: seed-independent categorical descriptor of the failing case."""
        key = str(key)
        if key in self._seen_keys:
            return
        self._seen_keys.add(key)
        for k in self._known:
            if k.get("status") == "known" and k["key"] == key:
                self.known_hit.append((key, what))
                print("KNOWN-FINDING: property=%s %s :: %s" % (self.pid, key, what), flush=True)
                return
        os.makedirs(REPLAY, exist_ok=True)
        h = hashlib.sha1(key.encode()).hexdigest()[:10]
        path = os.path.join(REPLAY, "%s-%s.json" % (self.pid, h))
        with open(path, "w") as f:
            json.dump({"property": self.pid, "key": key, "what": what, "seed": seed(), "tier": self.tier,
                       "rerun": "VERIF_SEED=%d ./check %s --tier %s" % (seed(), self.pid, self.tier),
                       "case": replay}, f, indent=1, default=_js)
        self.violations.append((key, what, path))
        if len(self.violations) <= 25:
            print("VIOLATION property=%s replay=%s" % (self.pid, path), flush=True)
            print("  key=%s :: %s" % (key[:400], what[:600]), flush=True)
        elif len(self.violations) == 26:
            print("  (further violations are counted and written to evidence/replay, not printed)", flush=True)

    def model_drift(self, what):
        self.drift.append(what)
        print("MODEL-DRIFT property=%s %s" % (self.pid, what), flush=True)

    def finish(self):
        self.cov["distinct_nontrivial"] = max(self.cov.get("distinct_nontrivial", 0), len(self._distinct))
        level = self.level
        if self.drift and level == "model_checking":
            level = "exploration"
        cov = dict(self.cov)
        cov.update(self.notes)
        if self.drift:
            cov["model_drift"] = self.drift[:20]
        if self.known_hit:
            cov["known_findings_reproduced"] = [k for k, _ in self.known_hit]
        # schema floors
        if level == "model_checking":
            cov.setdefault("states", 0)
            cov.setdefault("transitions", 0)
            cov.setdefault("traces_validated_against_impl", 0)
        if not cov["samples"]:
            cov["samples"] = ["(none recorded)"]
        ev = {
            "property_id": self.pid,
            "tier": self.tier,
            "seed": seed(),
            "level": level,
            "coverage": cov,
            "assumptions": self.assumptions,
            "wall_s": round(time.time() - self.t0, 2),
            "violations": len(self.violations),
        }
        os.makedirs(EVID, exist_ok=True)
        with open(os.path.join(EVID, "%s.json" % self.pid), "w") as f:
            json.dump(ev, f, indent=1, default=_js)
        print("%s tier=%s seed=%d evaluations=%d nontrivial=%d violations=%d known=%d drift=%d wall=%.1fs" % (
            self.pid, self.tier, seed(), cov["evaluations"], cov["distinct_nontrivial"], len(self.violations),
            len(self.known_hit), len(self.drift), ev["wall_s"]), flush=True)
        return 1 if self.violations else 0


def _js(o):
    import numpy as np

    if isinstance(o, (np.integer,)):
        return int(o)
    if isinstance(o, (np.floating,)):
        return float(o)
    if isinstance(o, np.ndarray):
        return o.tolist()
    if isinstance(o, (set, frozenset)):
        return sorted(o)
    if isinstance(o, (np.bool_,)):
        return bool(o)
    return str(o)


def dump_ndjson(path, records):
    with open(path, "w") as f:
        for r in records:
            f.write(json.dumps(r, default=_js, separators=(",", ":")) + "\n")


def pmap(fn, items, procs=None, chunksize=1):
    """Order-preserving parallel map with fork (workers import matid lazily)."""
    import multiprocessing as mp

    procs = procs or NCPU
    items = list(items)
    if procs <= 1 or len(items) <= 1:
        return [fn(x) for x in items]
    ctx = mp.get_context("fork")
    with ctx.Pool(min(procs, len(items))) as pool:
        return pool.map(fn, items, chunksize)
