"""Single-crystal input family of C02 / C04 / C18: bulk supercells, slabs (with adsorbates) and monolayers of
simple crystals, with the *independent* precondition the properties state (bonded with margin, not overlapping
with margin, small primitive cell, large periodic heights)."""
import itertools

import numpy as np

from .common import rng_pinned as rng_for
from .structures import rigid

MARGIN = 0.15
MAX_CELL = 6.0
BOND_THR = 0.65
OVERLAP_THR = -0.6

COMPOUNDS = {
    "NaCl": ("rocksalt", 5.64), "MgO": ("rocksalt", 4.21), "LiF": ("rocksalt", 4.03), "KBr": ("rocksalt", 6.60),
    "ZnS": ("zincblende", 5.41), "GaAs": ("zincblende", 5.65), "SiC": ("zincblende", 4.36),
    "CsCl": ("cesiumchloride", 4.12), "CsBr": ("cesiumchloride", 4.29),
    "CaF2": ("fluorite", 5.46), "Li2O": ("fluorite", 4.62),
    "ZnO": ("wurtzite", 3.25), "AlN": ("wurtzite", 3.11),
}


def elements():
    from ase.data import atomic_numbers, covalent_radii, reference_states

    out = []
    for z, rs in enumerate(reference_states):
        if rs is None or z < 3 or z > 83:
            continue
        sym = rs.get("symmetry")
        if sym in ("fcc", "bcc", "hcp", "diamond", "sc") and "a" in rs:
            from ase.data import chemical_symbols

            out.append((chemical_symbols[z], sym))
    return out


def unit(name):
    """conventional / primitive bulk cells of an element or compound prototype"""
    from ase.build import bulk
    from ase.spacegroup import crystal

    if name in COMPOUNDS:
        st, a = COMPOUNDS[name]
        if st == "wurtzite":
            return bulk(name, st, a=a), bulk(name, st, a=a)
        return bulk(name, st, a=a, cubic=True), bulk(name, st, a=a)
    if name == "SrTiO3":
        c = crystal(["Sr", "Ti", "O"], [(0, 0, 0), (0.5, 0.5, 0.5), (0.5, 0.5, 0)], spacegroup=221, cellpar=[3.905] * 3 + [90] * 3)
        return c, c
    if name == "TiO2":
        c = crystal(["Ti", "O"], [(0, 0, 0), (0.3053, 0.3053, 0)], spacegroup=136, cellpar=[4.594, 4.594, 2.959, 90, 90, 90])
        return c, c
    sym = dict(elements())[name]
    if sym == "hcp":
        return bulk(name), bulk(name)
    if sym == "sc":
        return bulk(name), bulk(name)
    return bulk(name, cubic=True), bulk(name)


def heights(cell, pbc):
    C = np.asarray(cell, dtype=float)
    vol = abs(np.linalg.det(C))
    hs = []
    for i in range(3):
        if pbc[i]:
            cr = np.cross(C[(i + 1) % 3], C[(i + 2) % 3])
            hs.append(vol / np.linalg.norm(cr))
    return hs


def precondition(atoms, expected_dim, radii=None, check_heights=True):
    """independent check of the property's precondition; returns (ok, reason)"""
    from ase.data import covalent_radii
    from ase.neighborlist import neighbor_list

    r = covalent_radii[atoms.numbers] if radii is None else radii
    pbc = atoms.get_pbc()
    if check_heights and any(h <= 2 * MAX_CELL for h in heights(atoms.cell[:], pbc)):
        return False, "periodic cell height <= 2*max_cell_size"
    i, j, d, S = neighbor_list("ijdS", atoms, 2 * r.max() + BOND_THR + 0.2)
    g = d - r[i] - r[j]
    if np.any(g < OVERLAP_THR + MARGIN):
        return False, "overlapping atoms"
    if np.any((g > BOND_THR - MARGIN) & (g <= BOND_THR + MARGIN)):
        return False, "a neighbour pair inside the bonding margin"
    m = g <= BOND_THR - MARGIN
    ei, ej, eS = i[m], j[m], S[m]
    n = len(atoms)
    # components + cycle lattice rank by BFS potentials
    adj = [[] for _ in range(n)]
    for a, b, s in zip(ei, ej, eS):
        adj[a].append((b, s))
    phi = [None] * n
    phi[0] = np.zeros(3, int)
    stack = [0]
    while stack:
        u = stack.pop()
        for v, s in adj[u]:
            if phi[v] is None:
                phi[v] = phi[u] + s
                stack.append(v)
    if any(p is None for p in phi):
        return False, "bonding graph (with margin) not connected"
    cyc = [phi[a] + s - phi[b] for a, b, s in zip(ei, ej, eS)]
    cyc = [c for c in cyc if c.any()]
    rank = np.linalg.matrix_rank(np.array(cyc)) if cyc else 0
    if rank != expected_dim:
        return False, "bonded network has rank %d, expected %d" % (rank, expected_dim)
    return True, ""


def primitive_ok(prim):
    return len(prim) <= 6 and np.all(np.linalg.norm(prim.cell[:], axis=1) < MAX_CELL)


def bulk_supercell(name, rng):
    conv, prim = unit(name)
    if not primitive_ok(prim):
        return None
    reps = [int(np.ceil((2 * MAX_CELL + 0.5) / h)) for h in heights(conv.cell[:], [True] * 3)]
    return conv.repeat(reps)


def slab(name, facet, layers, pbc_z, rng, min_lateral=2 * MAX_CELL + 0.5, extra=(0, 0)):
    from ase.build import surface

    conv, prim = unit(name)
    if not primitive_ok(prim):
        return None
    s = surface(conv, facet, layers, vacuum=8.0)
    hs = heights(s.cell[:], [True, True, False])
    lat = np.linalg.norm(s.cell[:2], axis=1)
    # lateral repeats: periodic heights must exceed 2*max_cell_size
    C = s.cell[:]
    h_a = np.linalg.norm(np.cross(C[0], C[1])) / np.linalg.norm(C[1])
    h_b = np.linalg.norm(np.cross(C[0], C[1])) / np.linalg.norm(C[0])
    s = s.repeat((int(np.ceil(min_lateral / h_a)) + extra[0], int(np.ceil(min_lateral / h_b)) + extra[1], 1))
    s.set_pbc([True, True, bool(pbc_z)])
    if pbc_z and s.cell[2, 2] <= 2 * MAX_CELL + 0.5:
        c = s.cell[:].copy()
        c[2, 2] = 2 * MAX_CELL + 4
        s.set_cell(c)
    s.center(axis=2)
    return s


def add_adsorbates(s, n_ads, species, rng, placement="random"):
    """foreign atoms on top of surface atoms at bonding height.  placement "half_a" / "half_b" / "half_diag" (two adsorbates):
    the second one sits on the top atom half a lateral cell vector (or half the lateral diagonal) away from the first -
    the pair is then commensurate with the slab lattice.  Returns None if the slab has no such pair of top sites."""
    from ase import Atom
    from ase.data import atomic_numbers, covalent_radii
    from ase.geometry import find_mic

    top_z = s.positions[:, 2].max()
    tops = [i for i in range(len(s)) if s.positions[i, 2] > top_z - 0.3]
    if placement == "random" or n_ads != 2:
        chosen = rng.choice(tops, n_ads, replace=False)
    else:
        cell = s.cell[:]
        v = {"half_a": 0.5 * cell[0], "half_b": 0.5 * cell[1], "half_diag": 0.5 * (cell[0] + cell[1])}[placement]
        first = int(rng.choice(tops))
        second = None
        for j in tops:
            d, _ = find_mic(s.positions[j] - s.positions[first] - v, cell, pbc=[True, True, False])
            if np.linalg.norm(d) < 0.05:
                second = j
        if second is None or second == first:
            return None
        chosen = [first, second]
    ads = []
    for i in chosen:
        h = covalent_radii[atomic_numbers[species]] + covalent_radii[s.numbers[i]]
        s.append(Atom(species, position=s.positions[i] + [0, 0, h]))
        ads.append(len(s) - 1)
    return ads


def monolayer(name, size):
    from ase.build import graphene, mx2

    if name == "graphene":
        a = graphene(size=(size, size, 1), vacuum=8.0)
    elif name == "BN":
        a = graphene(formula="BN", a=2.50, size=(size, size, 1), vacuum=8.0)
    else:
        kind = "2H" if name.endswith("2H") else "1T"
        a = mx2(formula=name.split("-")[0], kind=kind, a=3.18, thickness=3.19, size=(size, size, 1), vacuum=8.0)
    a.set_pbc(True)
    return a


def rattle(atoms, amp, rng):
    if amp:
        v = rng.normal(size=atoms.positions.shape)
        v /= np.linalg.norm(v, axis=1)[:, None]
        atoms.positions += v * rng.uniform(0, amp, len(atoms))[:, None]


def c02_descriptors(tier):
    els = elements()
    comps = list(COMPOUNDS) + ["SrTiO3", "TiO2"]
    out = []
    k = 0
    for name, sym in els:
        k += 1
        if tier == "quick" and k % 2:
            continue
        out.append({"name": name, "sym": sym, "form": "bulk", "noise": [0, 0.02, 0.05][k % 3], "i": k})
        facets = {"fcc": [(1, 0, 0), (1, 1, 0), (1, 1, 1)], "bcc": [(1, 0, 0), (1, 1, 0)], "hcp": [(0, 0, 1)], "diamond": [(1, 0, 0), (1, 1, 1)],
                  "sc": [(1, 0, 0)]}[sym]
        for fi, f in enumerate(facets):
            if tier == "quick" and (k + fi) % 3:
                continue
            m = k + fi  # attributes from different digits of m: the quick tier (m % 3 == 0) meets every layer count, pbc and noise
            out.append({"name": name, "sym": sym, "form": "slab", "facet": f, "layers": 3 + (m // 3) % 2, "pbc_z": bool((m // 6) % 2),
                        "noise": [0, 0.02, 0.05][(m // 2) % 3], "i": k * 10 + fi})
    for ci, name in enumerate(comps):
        out.append({"name": name, "sym": "compound", "form": "bulk", "noise": [0, 0.02, 0.05][ci % 3], "i": 1000 + ci})
        for fi, f in enumerate([(1, 0, 0), (1, 1, 0)] if name not in ("ZnO", "AlN") else [(0, 0, 1)]):
            if tier == "quick" and (ci + fi) % 2:
                continue
            out.append({"name": name, "sym": "compound", "form": "slab", "facet": f, "layers": 3, "pbc_z": bool(((ci + fi) // 2) % 2),
                        "noise": [0, 0.02][ci % 2], "i": 2000 + ci * 10 + fi})
    # inputs of recorded findings stay explored under their own descriptor (known_findings.json identifies them by it)
    if tier == "thorough":
        ci = comps.index("TiO2")
        reg = {"name": "TiO2", "sym": "compound", "form": "slab", "facet": (1, 1, 0), "layers": 3, "pbc_z": True, "noise": 0.02, "i": 2000 + ci * 10 + 1}
        if reg not in out:
            out.append(reg)
    return out


def build_c02(desc):
    """-> (atoms, expected_dim, skip_reason)"""
    rng = rng_for("c02build", sorted((k, str(v)) for k, v in desc.items()))
    try:
        if desc["form"] == "bulk":
            a = bulk_supercell(desc["name"], rng)
            dim = 3
        else:
            a = slab(desc["name"], desc["facet"], desc["layers"], desc["pbc_z"], rng)
            dim = 2
    except Exception as e:
        return None, None, "builder failed: %s" % e
    if a is None:
        return None, None, "primitive cell too large"
    if len(a) > 400:
        return None, None, "too many atoms"
    ok, why = precondition(a, dim)
    if not ok:
        return None, None, why
    rattle(a, desc.get("noise", 0), rng)
    return a, dim, ""


def precondition_stack(s, nb):
    """C03: both slabs bonded (rank 2) and non-overlapping with margin, interface at a bonding distance."""
    from ase.data import covalent_radii
    from ase.neighborlist import neighbor_list

    r = covalent_radii[s.numbers]
    i, j, d = neighbor_list("ijd", s, 2 * r.max() + BOND_THR + 0.2)
    g = d - r[i] - r[j]
    if np.any(g < OVERLAP_THR + MARGIN):
        return False, "overlapping atoms (after straining)"
    if np.any((g > BOND_THR - MARGIN) & (g <= BOND_THR + MARGIN)):
        return False, "a neighbour pair inside the bonding margin"
    inter = ((i < nb) != (j < nb)) & (g <= BOND_THR - MARGIN)
    if not inter.any():
        return False, "slabs are not at a bonding distance"
    for sel in (np.arange(len(s)) < nb, np.arange(len(s)) >= nb):
        sub = s[sel]
        sub.set_pbc([True, True, False])
        c = sub.cell[:].copy()
        c[2] = [0, 0, 60.0]
        sub.set_cell(c)
        ok, why = precondition(sub, 2, check_heights=False)
        if not ok:
            return False, "slab: " + why
    return True, ""
