"""Run the TLA+ proof system on a module of spec/proofs and report obligations / proved."""
import os
import re
import shutil
import subprocess
import time

from .common import SPEC


def prove(module, timeout=900):
    d = os.path.join(SPEC, "proofs")
    cache = os.path.join(d, ".tlacache")
    shutil.rmtree(cache, ignore_errors=True)
    t0 = time.time()
    try:
        p = subprocess.run(["tlapm", "--toolbox", "0", "0", module], cwd=d, stdout=subprocess.PIPE, stderr=subprocess.STDOUT,
                           text=True, timeout=timeout)
        out = p.stdout
    except (subprocess.TimeoutExpired, FileNotFoundError) as e:
        out = "tlapm unavailable or timed out: %s" % e
    finally:
        shutil.rmtree(cache, ignore_errors=True)
    m = re.search(r"All (\d+) obligations? proved", out)
    total = len(re.findall(r"@!!type:obligation", out))
    proved = len(re.findall(r"@!!status:proved", out))
    if m:
        total = proved = int(m.group(1))
    return {"module": module, "obligations": total, "proved": proved, "all_proved": bool(m), "wall_s": round(time.time() - t0, 1)}
