"""Observation functions: run SymmetryAnalyzer on a structure and project what it reports to
integers / strings (public API only)."""
import numpy as np

from .crystals import TOL


def analyzer(atoms, tol=TOL, **kw):
    from matid.symmetry import SymmetryAnalyzer

    # the documented signature is (system, symmetry_tol, min_2d_thickness): half of the calls pass the tolerance by position
    if len(atoms) % 2 and not kw:
        return SymmetryAnalyzer(atoms, tol)
    return SymmetryAnalyzer(atoms, symmetry_tol=tol, **kw)


def obs_info(atoms, tol=TOL):
    an = analyzer(atoms, tol)
    return {"number": int(an.get_space_group_number()), "system": str(an.get_crystal_system()),
            "bravais": str(an.get_bravais_lattice()), "pointgroup": str(an.get_point_group()),
            "hall": int(an.get_hall_number())}


def obs_chiral(atoms, tol=TOL):
    an = analyzer(atoms, tol)
    flag = an.get_is_chiral()
    return {"number": int(an.get_space_group_number()), "flag": bool(flag),
            "n_ops_reported": int(len(an.get_symmetry_operations()["rotations"]))}


def find_crystal(sg, k0=0, **kw):
    """first generated crystal for sg starting at stream k0 (a few groups need several streams)"""
    from . import crystals

    for k in range(k0, k0 + 12):
        c = crystals.gen_crystal(sg, k, **kw)
        if c is not None:
            return c
    return None
