"""Run Classifier.classify on one structure and project the observable outcome (C17, C18)."""
from fractions import Fraction

import numpy as np

from . import sbcrun, structures
from .common import rng_for


LIMIT_S = 600


class _TimeLimit(BaseException):
    """not an Exception: the handlers inside classify_record must not swallow it"""


def dim_enc(d):
    return -1 if d is None else int(d)


def classify_record(atoms, params=None):
    import matid.geometry
    from matid.classification.classifier import Classifier

    params = dict(params or {})
    ref_radii = params.get("radii", "covalent")
    if isinstance(ref_radii, str) and ref_radii.startswith("table:"):
        # a custom per-element table (indexed by atomic number, as the classifier documents); the reference uses per-atom radii
        from ase.data import covalent_radii as _cov

        table = float(ref_radii.split(":")[1]) * np.array(_cov)
        params["radii"] = table
        ref_radii = table[atoms.get_atomic_numbers()]
    if isinstance(params.get("pos_tol"), str) and params["pos_tol"].startswith("array:"):
        params["pos_tol"] = np.array([float(x) for x in params["pos_tol"].split(":")[1].split(",")])
    params0 = {k: (v.copy() if isinstance(v, np.ndarray) else v) for k, v in params.items()}
    rec = {"n": len(atoms), "error": "", "cls": "", "cls_again": "", "cls_hist": "", "cls_same_object": "", "params_untouched": True, "untouched": True, "has_cell": False, "basis": [],
           "outliers": [], "region_known": False, "region": {"has": False, "nbasis": 0, "is2d": False, "nconn": 0}}
    min_cov = params.get("min_coverage", 0.5)
    fr = Fraction(str(min_cov))
    rec["cov_num"], rec["cov_den"] = fr.numerator, fr.denominator
    fp = sbcrun.fingerprint(atoms)
    captured = {}
    orig = Classifier.cross_validate_region

    def spy(self, *a, **kw):
        r = orig(self, *a, **kw)
        captured["region"] = r
        captured["called"] = True
        return r

    Classifier.cross_validate_region = spy
    try:
        clf = Classifier(**params)
        try:
            c = clf.classify(atoms)
            rec["cls"] = type(c).__name__
        except Exception as e:
            rec["error"] = "%s: %s" % (type(e).__name__, str(e)[:160])
            return rec
        finally:
            rec["untouched"] = sbcrun.same(fp, atoms)
        if rec["cls"] in ("Surface", "Material2D"):
            try:
                rec["has_cell"] = c.prototype_cell is not None
                rec["basis"] = sorted(int(i) + 1 for i in c.basis_indices)
                rec["outliers"] = sorted(int(i) + 1 for i in c.outliers)
            except Exception as e:
                rec["error"] = "accessors: %s: %s" % (type(e).__name__, str(e)[:120])
        if captured.get("called"):
            reg = captured.get("region")
            rec["region_known"] = True
            if reg is not None:
                dirs = reg.get_connected_directions()
                rec["region"] = {"has": True, "nbasis": int(len(reg.get_basis_indices())), "is2d": bool(reg.is_2d),
                                 "nconn": int(np.sum(dirs))}
                # the search graph of the region, for the binding of Region.tla (TraceRegion)
                try:
                    G = reg._search_graph
                    rec["graph"] = {"edges": [[[int(x) for x in u], [int(x) for x in v], [int(x) for x in d["multiplier"]]]
                                              for u, v, d in G.edges(data=True)][:6000],
                                    "code_dirs": [bool(x) for x in dirs], "n_units": int(len(reg))}
                except Exception:
                    pass
        try:
            rec["cls_again"] = type(Classifier(**params).classify(atoms)).__name__
        except Exception as e:
            rec["cls_again"] = "raised " + type(e).__name__
        # "repeated calls give the same class": the same classifier object, the same input, twice more
        try:
            again = [type(clf.classify(atoms)).__name__ for _ in range(2)]
            rec["cls_same_object"] = again[0] if again[0] == again[1] else "%s then %s" % tuple(again)
        except Exception as e:
            rec["cls_same_object"] = "raised " + type(e).__name__
        # parameters handed over as arrays are the caller's: unchanged afterwards
        rec["params_untouched"] = bool(all(np.array_equal(v, params0[k]) for k, v in params.items() if isinstance(v, np.ndarray)))
        # history: one classifier object that classified the same geometry under another pbc pattern just before
        try:
            warm = Classifier(**params)
            other = atoms.copy()
            pb = atoms.get_pbc()
            other.set_pbc([not pb[0], pb[1], not pb[2]] if abs(np.linalg.det(atoms.get_cell()[:])) > 1e-9 else pb)
            try:
                warm.classify(other)
            except Exception:
                pass
            rec["cls_hist"] = type(warm.classify(atoms)).__name__
        except Exception as e:
            rec["cls_hist"] = "raised " + type(e).__name__
    finally:
        Classifier.cross_validate_region = orig
    # dimensionality of the wrapped structure, evaluated directly (not through the classifier's distance cache)
    w = atoms.copy()
    try:
        if w.get_pbc().any():
            w.wrap()
        rec["dim_wrapped"] = dim_enc(matid.geometry.get_dimensionality(w, params.get("cluster_threshold", 3.5),
                                                                        radii=ref_radii if isinstance(ref_radii, str) else np.array(ref_radii)))
    except Exception as e:
        rec["dim_wrapped"] = -7
        rec["dim_error"] = str(e)[:100]
    # independent network (brute-force image sums) of the wrapped structure, for small inputs: lets TLC confirm that the
    # dimensionality reference itself is the definition at the classifier's own threshold (TraceDim)
    try:
        if len(w) <= 40 and isinstance(ref_radii, str) and ref_radii == "covalent":
            from ase.data import covalent_radii

            from .props.c09 import edge_list

            thr = params.get("cluster_threshold", 3.5)
            edges, amb = edge_list(w, covalent_radii[w.numbers], thr)
            if edges is not None and not amb and len(edges) <= 2500:
                d_, cl_ = matid.geometry.get_dimensionality(w, thr, radii="covalent", return_clusters=True)
                rec["dimref"] = {"ev": "edim", "n": len(w), "pbc": [bool(x) for x in w.get_pbc()], "edges": edges, "dim": dim_enc(d_),
                                 "clusters": [sorted(int(i) + 1 for i in c_) for c_ in cl_]}
    except Exception:
        pass
    return rec


def execute_c17(job):
    kind, desc, params, opt = job
    atoms, extra = structures.build(kind, desc)
    if len(atoms) > 150:
        return {"skip": "more than 150 atoms"}
    cell = atoms.get_cell()[:]
    pbc = atoms.get_pbc()
    if pbc.any() and abs(np.linalg.det(cell)) < 1e-9:
        return {"skip": "zero-volume cell with periodic directions"}
    if not pbc.any() and abs(np.linalg.det(cell)) < 1e-9 and cell.any():
        return {"skip": "partially defined cell"}
    rng = rng_for("c17", kind, sorted(desc.items()))
    if opt.get("rigid"):
        atoms, _ = structures.rigid(atoms, rng)
    # a classification of <= 150 atoms takes seconds; one that has not returned after 15 minutes has not "returned normally"
    import signal

    def _alarm(signum, frame):
        raise _TimeLimit("no result within %d s" % LIMIT_S)

    old = signal.signal(signal.SIGALRM, _alarm)
    signal.alarm(LIMIT_S)
    try:
        rec = classify_record(atoms, params)
    except _TimeLimit as e:
        rec = {"n": len(atoms), "error": "TimeLimit: %s" % e, "cls": "", "cls_again": "", "cls_hist": "", "cls_same_object": "", "params_untouched": True,
               "untouched": True, "has_cell": False, "basis": [], "outliers": [], "region_known": False, "cov_num": 1, "cov_den": 2, "dim_wrapped": -7,
               "region": {"has": False, "nbasis": 0, "is2d": False, "nconn": 0}}
    finally:
        signal.alarm(0)
        signal.signal(signal.SIGALRM, old)
    rec.update({"kind": kind, "desc": desc, "params": {k: str(v) for k, v in params.items()}})
    return rec


def region_layer(run, recs, d, expect_rank):
    """Binding of Region.tla: winding directions recomputed by TLC from the recorded search graphs."""
    import os

    from . import tlc
    from .common import dump_ndjson

    sub = []
    for r in recs:
        g = r.get("graph")
        if not g or not g["edges"]:
            continue
        sub.append({"tid": len(sub) + 1, "edges": g["edges"], "code_dirs": g["code_dirs"], "expect_rank": expect_rank(r), "src": r["tid"]})
    if not sub:
        return
    tp = os.path.join(d, "region.ndjson")
    dump_ndjson(tp, sub)
    res = tlc.run("TraceRegion.tla", "TraceRegion.cfg", env={"TRACE_FILE": tp}, must_pass=False, timeout=1200)
    if res.error or res.distinct != 2 * len(sub):
        run.model_drift("TraceRegion could not be evaluated: %s" % (res.error or "records not consumed"))
        return
    run.add_model(res, "TraceRegion: %d recorded search graphs (winding directions recomputed in the spec)" % len(sub))
    info = 0
    for tid, clause in res.printed("FAIL"):
        if clause.startswith("INFO"):
            info += 1
        else:
            run.model_drift("%s on the region of record %d" % (clause, sub[tid - 1]["src"]))
    run.notes["regions_bound_to_Region_tla"] = len(sub)
    run.notes["regions_whose_winding_rank_differs_from_expected"] = info
