"""Crystal generators for the symmetry properties (C05-C08, C11, C12, C14, C15).

Crystals are built with ase.spacegroup.crystal (ASE's own space-group tables, standard setting 1 =
origin choice 1 / unique axis b / hexagonal axes, the setting spglib standardizes to).  The group an
*independent* spglib search finds for the generated cell is the truth; samples whose group is not
stable over a 100x tolerance window are discarded (and counted by the callers).
MatID's Wyckoff table is used only to *steer* where atoms are put (which letters get occupied),
never as an oracle.
"""
import numpy as np

from .common import rng_for

Q = 960000  # fractional-coordinate grid (multiple of 24)
TOL = 0.01  # symmetry tolerance used for analyzers on generated (exact) crystals
ELEMENTS = ["Si", "O", "Cu", "Na", "Cl", "Ti", "Fe", "S", "Mg", "Al", "C", "N", "Zn", "Br", "K"]

PRESENT_P = [
    [[1, 0, 0], [0, 1, 0], [0, 0, 1]],
    [[1, 1, 0], [0, 1, 0], [0, 1, 1]],  # unimodular shear
    [[1, 0, 1], [1, 1, 0], [0, 1, 1]],  # det 2
    [[2, 0, 0], [0, 1, 0], [0, 0, 1]],  # det 2, breaks lattice symmetry
    [[1, 2, 0], [0, 1, 0], [3, 0, 1]],  # unimodular, strongly sheared
    [[1, 1, 0], [0, 1, 2], [1, 0, 1]],  # det 3
    [[1, 0, 0], [0, 1, 0], [0, 0, 2]],
    [[1, 1, 0], [-1, 1, 0], [0, 0, 1]],  # det 2
    [[2, 0, 0], [0, 2, 0], [0, 0, 1]],  # det 4
    [[0, 1, 0], [0, 0, 1], [1, 0, 0]],  # cyclic relabelling
    [[1, 0, 0], [1, 1, 0], [1, 1, 1]],
    [[1, 1, 1], [0, 1, 0], [0, 0, 3]],  # det 3
    [[0, 1, 0], [1, 0, 0], [0, 0, 1]],  # det -1: the same lattice described in a left-handed basis
    [[1, 0, 0], [1, 1, 0], [0, 1, -1]],  # det -1, sheared
]


def cellpar(sg, rng, near=False):
    """near=True: lattice parameters close to (but, by more than the analysis tolerances, distinct from) a more
    symmetric metric: angles 1-2.2 degrees off 90, axis lengths 1.5-3 % apart."""
    a, b, c = rng.uniform(4.0, 7.5, 3)
    if near:
        b = a * (1 + float(rng.uniform(0.015, 0.03)))
        c = a * (1 + float(rng.uniform(0.035, 0.05)))
        off = lambda: 90 + float(rng.choice([-1, 1])) * float(rng.uniform(1.0, 2.2))  # noqa: E731
        if sg <= 2:
            return [a, b, c, off(), off(), off()]
        if sg <= 15:
            return [a, b, c, 90, 90 + float(rng.uniform(1.0, 2.2)), 90]
        if sg <= 74:
            return [a, b, c, 90, 90, 90]
        if sg <= 142:
            return [a, a, c if rng.random() < 0.5 else b, 90, 90, 90]
        if sg <= 194:
            return [a, a, c, 90, 90, 120]
        return [a, a, a, 90, 90, 90]
    if abs(a - b) < 0.3:
        b += 0.6
    if abs(b - c) < 0.3:
        c += 0.6
    if abs(a - c) < 0.3:
        c += 0.6
    if sg <= 2:
        return [a, b, c] + list(rng.uniform(75, 105, 3))
    if sg <= 15:
        return [a, b, c, 90, float(rng.uniform(97, 115)), 90]
    if sg <= 74:
        return [a, b, c, 90, 90, 90]
    if sg <= 142:
        return [a, a, c, 90, 90, 90]
    if sg <= 194:
        return [a, a, c, 90, 90, 120]
    return [a, a, a, 90, 90, 90]


def _wyckoff_table(sg):
    from matid.data.symmetry_data import WYCKOFF_SETS

    ws = WYCKOFF_SETS[sg]
    ncent = 1 + len(np.array(ws.get("translations", [])).reshape(-1, 3))
    out = {}
    for l, v in ws.items():
        if l == "translations":
            continue
        out[l] = {"mult": len(v["expressions"]) * ncent, "M": np.asarray(v["matrices"][0], dtype=float),
                  "C": np.asarray(v["constants"][0], dtype=float), "nvar": len(v["variables"])}
    return out


def site_for_letter(sg, letter, rng):
    w = _wyckoff_table(sg)[letter]
    par = rng.uniform(0.06, 0.44, 3) + np.array([0.0, 0.013, 0.029])
    return tuple(float(x) for x in (par @ w["M"] + w["C"]) % 1.0)


def spg_number(atoms, tol):
    import spglib

    ds = spglib.get_symmetry_dataset((atoms.cell[:], atoms.get_scaled_positions(), atoms.numbers), tol)
    return None if ds is None else ds.number


def min_distance(atoms):
    if len(atoms) < 2:
        return 9.9
    d = atoms.get_all_distances(mic=True)
    np.fill_diagonal(d, 99)
    return float(d.min())


def gen_crystal(sg, k, max_atoms=120, letters=None, tol=TOL, tries=60):
    """Returns dict(atoms, sg, letters, species, cellpar, basis) or None.  letters: force these Wyckoff letters."""
    from ase.spacegroup import crystal

    rng = rng_for("crystal", sg, k, letters)
    table = _wyckoff_table(sg)
    names = sorted(table)
    general = names[-1]
    for attempt in range(tries):
        if letters is not None:
            chosen = list(letters)
            # add anchors so that the target group (not a supergroup) is realised
            extra = int(rng.integers(0, 3)) if attempt < tries // 2 else 2
            chosen += [general if rng.random() < 0.5 else str(rng.choice(names)) for _ in range(extra)]
        else:
            n_orb = int(rng.integers(1, 4))
            chosen = []
            for _ in range(n_orb):
                r = rng.random()
                chosen.append(general if r < 0.45 else str(rng.choice(names)))
            if attempt > tries // 2 and general not in chosen:
                chosen.append(general)
        if sum(table[l]["mult"] for l in chosen) > max_atoms:
            # drop the most expensive optional orbits
            keep = list(letters or [])
            rest = sorted([l for l in chosen[len(keep):]], key=lambda l: table[l]["mult"])
            chosen = keep
            for l in rest:
                if sum(table[x]["mult"] for x in chosen) + table[l]["mult"] <= max_atoms:
                    chosen.append(l)
            if not chosen or sum(table[l]["mult"] for l in chosen) > max_atoms:
                continue
        # fixed points can be occupied once only
        seen_fixed = set()
        ok = True
        for l in chosen:
            if table[l]["nvar"] == 0:
                if l in seen_fixed:
                    ok = False
                seen_fixed.add(l)
        if not ok:
            continue
        basis = [site_for_letter(sg, l, rng) for l in chosen]
        n_species = int(rng.integers(1, len(chosen) + 1))
        pool = list(rng.choice(ELEMENTS, n_species, replace=False))
        species = [pool[i % n_species] for i in range(len(chosen))]
        cp = cellpar(sg, rng, near=(k % 3 == 2))
        try:
            at = crystal(species, basis, spacegroup=sg, cellpar=cp, onduplicates="error", symprec=1e-4)
        except Exception:
            continue
        if len(at) > max_atoms or len(at) != sum(table[l]["mult"] for l in chosen):
            continue
        if min_distance(at) < 0.9:
            continue
        if not (spg_number(at, tol / 10) == sg and spg_number(at, tol) == sg and spg_number(at, tol * 10) == sg):
            continue
        return {"atoms": at, "sg": sg, "letters": chosen, "species": species, "cellpar": [float(x) for x in cp],
                "basis": basis, "k": k}
    return None


def random_rotation(rng):
    from scipy.spatial.transform import Rotation

    return Rotation.random(random_state=int(rng.integers(2 ** 31))).as_matrix()


POLAR_POINT_GROUPS = {"1", "2", "m", "mm2", "4", "4mm", "3", "3m", "6", "6mm"}


def is_polar(sg):
    """space groups whose origin floats along at least one direction: an atom can sit at parameter value exactly 0"""
    import spglib

    for h in range(1, 531):
        t = spglib.get_spacegroup_type(h)
        if t.number == sg:
            return t.pointgroup_international in POLAR_POINT_GROUPS
    return False


def primitive_of(atoms):
    """the same crystal described in a primitive cell (spglib, no idealisation); the input itself if that fails"""
    import spglib
    from ase import Atoms

    try:
        res = spglib.standardize_cell((atoms.cell[:], atoms.get_scaled_positions(), atoms.numbers), to_primitive=True,
                                      no_idealize=True, symprec=1e-5)
        if res is None:
            return atoms
        lat, pos, num = res
        if np.linalg.det(lat) < 0 or len(num) > len(atoms):
            return atoms
        return Atoms(numbers=num, scaled_positions=pos, cell=lat, pbc=True)
    except Exception:
        return atoms


def present(atoms, rng, p_index=None, rotate=True, translate=True, permute=True, unwrap=False, primitive=False, origin_on_atom=False):
    """Another description of the same crystal: supercell / basis change P, proper rotation, translation,
    permutation, optionally atoms shifted out of the cell by lattice vectors."""
    from ase.build import make_supercell

    if p_index is None:
        p_index = int(rng.integers(len(PRESENT_P)))
    if primitive:
        # supercells and basis changes of the *primitive* lattice: sublattices that the conventional cell's multiples never reach
        atoms = primitive_of(atoms)
    P = np.array(PRESENT_P[p_index])
    if p_index and np.linalg.det(P) < 0:
        # ase.build.make_supercell refuses left-handed matrices: re-describe the lattice directly
        a2 = atoms.copy()
        a2.set_cell(P @ atoms.cell[:], scale_atoms=False)
        a2.wrap()
    else:
        a2 = make_supercell(atoms, P, wrap=True) if p_index else atoms.copy()
    if origin_on_atom:
        # the textbook convention for polar groups: the origin sits on an atom, so its free coordinates along the polar
        # directions are exactly 0 (a legitimate parameter value); no further translation
        a2.positions -= a2.positions[int(rng.integers(len(a2)))].copy()
        a2.wrap()
        translate = False
    if rotate:
        R = random_rotation(rng)
        a2.set_cell(a2.cell[:] @ R.T, scale_atoms=True)
    if translate:
        a2.translate(rng.uniform(-5, 5, 3))
        if not unwrap:
            a2.wrap()
    if unwrap:
        shifts = rng.integers(-2, 3, (len(a2), 3))
        a2.positions += shifts @ a2.cell[:]
    if permute:
        a2 = a2[rng.permutation(len(a2))]
    from .structures import decorate

    a2 = decorate(a2)
    return a2, {"P": PRESENT_P[p_index], "p_index": p_index, "rotate": rotate, "translate": translate,
                "permute": permute, "unwrap": unwrap, "primitive": bool(primitive), "origin_on_atom": bool(origin_on_atom)}


def qgrid(scaled):
    return (np.rint(np.asarray(scaled, dtype=float) * Q).astype(np.int64) % Q).tolist()


def scaled6(x):
    """real -> integer in units of 1e-6"""
    return int(round(float(x) * 1e6))
