"""Live data export: MatID's symmetry tables (from /repo's working tree) and the independent
reference (spglib's Hall-symbol database), as JSON constants for the TLA+ specs.

Units: translations / constants in 1/24.  Matrices are integer.  A numeric table value that is
not on the grid is exported as the sentinel OFFGRID so that the spec reports it (clause OnGrid)
instead of the exporter guessing.
"""
import collections
import json
import os
import re
from fractions import Fraction

import numpy as np

U = 24
OFFGRID = 99999


def grid(x, unit=U):
    v = float(x) * unit
    r = int(round(v))
    return r if abs(v - r) < 1e-4 else OFFGRID


def gint(x):
    r = int(round(float(x)))
    return r if abs(float(x) - r) < 1e-6 else OFFGRID


_term = re.compile(r"([+-]?)(\d+(?:/\d+)?)?([xyz])?")


def parse_expr(s):
    """'-x+1/2' -> ([cx, cy, cz], const*24) using exact fractions; independent of the numeric tables."""
    s = s.replace(" ", "")
    coef = {"x": Fraction(0), "y": Fraction(0), "z": Fraction(0)}
    const = Fraction(0)
    pos = 0
    while pos < len(s):
        m = _term.match(s, pos)
        if not m or m.end() == pos:
            raise ValueError("cannot parse Wyckoff expression %r" % s)
        sign = -1 if m.group(1) == "-" else 1
        num = Fraction(m.group(2)) if m.group(2) else Fraction(1)
        if m.group(3):
            coef[m.group(3)] += sign * num
        else:
            const += sign * num
        pos = m.end()
    out = []
    for v in "xyz":
        if coef[v].denominator != 1:
            raise ValueError("non-integer multiplier in %r" % s)
        out.append(int(coef[v]))
    c = const * U
    if c.denominator != 1:
        raise ValueError("constant of %r not on the 1/24 grid" % s)
    return out, int(c)


def group_rows(sg):
    """the live table rows of one group, as the specs read them"""
    from matid.data.symmetry_data import (CHIRALITY_PRESERVING_EUCLIDEAN_NORMALIZERS, SPACE_GROUP_INFO,
                                          WYCKOFF_SETS)

    info = SPACE_GROUP_INFO.get(sg, {})
    ws = WYCKOFF_SETS.get(sg, {})
    tr = np.array(ws.get("translations", [])).reshape(-1, 3)
    letters = sorted(k for k in ws if k != "translations")
    positions = []
    for l in letters:
        v = ws[l]
        exprs = v["expressions"]
        pm, pc = [], []
        for e in exprs:
            rows = [parse_expr(c) for c in e]  # component j: (coefs over x,y,z, const)
            # column form: p = M.W + c with M[j][i] = coefficient of variable i in component j
            pm.append([[rows[j][0][i] for i in range(3)] for j in range(3)])
            pc.append([rows[j][1] for j in range(3)])
        mats = np.asarray(v["matrices"], dtype=float)
        cons = np.asarray(v["constants"], dtype=float)
        # numeric convention: pos_row = W_row @ Mnum + C  ->  column form M[j][i] = Mnum[i][j]
        nm = [[[gint(mats[e][i][j]) for i in range(3)] for j in range(3)] for e in range(mats.shape[0])]
        nc = [[grid(cons[e][j]) for j in range(3)] for e in range(cons.shape[0])]
        positions.append({"letter": l, "vars": sorted(v["variables"]), "pm": pm, "pc": pc, "nm": nm, "nc": nc,
                          "nexpr": len(exprs)})
    norms = []
    for n in CHIRALITY_PRESERVING_EUCLIDEAN_NORMALIZERS.get(sg, []):
        T = np.asarray(n["transformation"], dtype=float)
        perm = n["permutations"]
        norms.append({"A": [[gint(T[i][j]) for j in range(3)] for i in range(3)],
                      "t": [grid(T[i][3]) for i in range(3)],
                      "last": [gint(T[3][j]) for j in range(4)],
                      "pfrom": sorted(perm.keys()), "pto": [perm[k] for k in sorted(perm.keys())]})
    return {"sg": sg, "bravais": info.get("bravais_lattice", "?"), "system": info.get("crystal_system", "?"),
            "pointgroup": info.get("pointgroup", "?"),
            "trans": [[grid(x) for x in t] for t in tr], "letters": letters, "pos": positions,
            "norms": norms}


def export_symdata(path):
    groups = [group_rows(sg) for sg in range(1, 231)]
    json.dump(groups, open(path, "w"))
    return groups


def hall_numbers():
    import spglib

    types = collections.defaultdict(list)
    for h in range(1, 531):
        types[spglib.get_spacegroup_type(h).number].append(h)
    return {sg: types[sg][0] for sg in types}


def export_refgroups(path):
    """Reference: spglib Hall database, first Hall number of each type (origin choice 1, unique axis b,
    hexagonal axes) - the setting MatID's tables are written in."""
    import spglib

    halls = hall_numbers()
    out = []
    for sg in range(1, 231):
        h = halls[sg]
        s = spglib.get_symmetry_from_database(h)
        t = spglib.get_spacegroup_type(h)
        ops = [{"R": np.asarray(r).astype(int).tolist(), "t": [grid(x) % U for x in tr]}
               for r, tr in zip(s["rotations"], s["translations"])]
        out.append({"sg": sg, "hall": h, "ops": ops, "pointgroup": t.pointgroup_international,
                    "centring": t.international_short[0], "symbol": t.international_short})
    json.dump(out, open(path, "w"))
    return out


def export_all(d):
    a = os.path.join(d, "symdata.json")
    b = os.path.join(d, "refgroups.json")
    return a, b, export_symdata(a), export_refgroups(b)
