"""Run TLC and parse its output.  All model checking goes through here."""
import os
import re
import shutil
import subprocess
import time

from .common import CACHE, NCPU, SPEC, MachineryError

JAR = "/opt/veriftools/tla/tla2tools.jar:/opt/veriftools/tla/CommunityModules-deps.jar"


class TLCResult:
    def __init__(self):
        self.out = ""
        self.rc = None
        self.generated = 0
        self.distinct = 0
        self.depth = 0
        self.wall = 0.0
        self.mode = "bfs"
        self.violated = None  # name of violated invariant/property, or "deadlock", "postcondition"
        self.error = None  # evaluation / parse error text
        self.coverage = {}  # action -> (distinct, generated)
        self.trace = []  # counterexample states as raw text blocks

    @property
    def ok(self):
        return self.rc == 0 and self.violated is None and self.error is None

    def printed(self, tag):
        """All PrintT'ed tuples <<"tag", ...>> as lists of python values (ints / strings)."""
        res = []
        for m in re.finditer(r'<<"%s"((?:,\s*(?:-?\d+|"[^"]*"|TRUE|FALSE|<<[^<>]*>>))*)>>' % re.escape(tag), self.out):
            res.append(_parse_items(m.group(1)))
        return res


def _parse_items(s):
    items = []
    for m in re.finditer(r',\s*(-?\d+|"[^"]*"|TRUE|FALSE|<<[^<>]*>>)', s):
        t = m.group(1)
        if t[0] == '"':
            items.append(t[1:-1])
        elif t == "TRUE":
            items.append(True)
        elif t == "FALSE":
            items.append(False)
        elif t.startswith("<<"):
            inner = t[2:-2].strip()
            items.append([_atom(x.strip()) for x in inner.split(",")] if inner else [])
        else:
            items.append(int(t))
    return items


def _atom(x):
    if x and x[0] == '"':
        return x[1:-1]
    if x == "TRUE":
        return True
    if x == "FALSE":
        return False
    try:
        return int(x)
    except ValueError:
        return x


def run(spec, cfg, *, workers=None, env=None, simulate=None, timeout=900, coverage=False,
        depth_first=False, label=None, must_pass=True, heap="8g", extra=()):
    """spec, cfg: file names inside /verif/spec.  env: dict exported to the JVM (IOEnv.X in TLA+).
    simulate: dict(num=..., depth=..., seed=...) for -simulate.  Returns TLCResult.
    must_pass: raise MachineryError on parse/evaluation errors (violations are returned, not raised)."""
    workers = workers or NCPU
    label = label or os.path.splitext(os.path.basename(cfg))[0]
    meta = os.path.join(CACHE, "tlcmeta", "%s-%d-%d" % (label, os.getpid(), int(time.time() * 1000) % 100000))
    os.makedirs(meta, exist_ok=True)
    cmd = ["java", "-XX:+UseParallelGC", "-Xmx" + heap, "-Xss16m"]
    if depth_first:
        cmd.append("-Dtlc2.tool.queue.IStateQueue=StateDeque")
    cmd += ["-cp", JAR, "tlc2.TLC", "-workers", str(workers), "-metadir", meta, "-noGenerateSpecTE",
            "-config", cfg]
    if coverage:
        cmd += ["-coverage", "1"]
    if simulate:
        cmd += ["-simulate", "num=%d" % simulate["num"], "-depth", str(simulate.get("depth", 100))]
        if "seed" in simulate:
            cmd += ["-seed", str(simulate["seed"])]
    cmd += list(extra) + [spec]
    e = dict(os.environ)
    for k, v in (env or {}).items():
        e[k] = str(v)
    res = TLCResult()
    res.mode = "simulate" if simulate else "bfs"
    t0 = time.time()
    try:
        p = subprocess.run(cmd, cwd=SPEC, env=e, stdout=subprocess.PIPE, stderr=subprocess.STDOUT,
                           timeout=timeout, text=True, errors="replace")
        res.out, res.rc = p.stdout, p.returncode
    except subprocess.TimeoutExpired as ex:
        res.out = (ex.stdout or b"").decode(errors="replace") if isinstance(ex.stdout, bytes) else (ex.stdout or "")
        res.rc = -9
        res.error = "timeout after %ds" % timeout
    finally:
        shutil.rmtree(meta, ignore_errors=True)
    res.wall = time.time() - t0
    _parse(res)
    if must_pass and res.error:
        raise MachineryError("TLC %s/%s: %s\n%s" % (spec, cfg, res.error, res.out[-3000:]))
    return res


def _parse(res):
    out = res.out
    m = None
    for m in re.finditer(r"(\d+) states generated, (\d+) distinct states found", out):
        pass
    if m:
        res.generated, res.distinct = int(m.group(1)), int(m.group(2))
    else:
        # interrupted run: take the last progress line ("1,234 states generated (...), 567 distinct states found")
        pm = None
        for pm in re.finditer(r"([\d,]+) states generated \([^)]*\), ([\d,]+) distinct states found", out):
            pass
        if pm:
            res.generated, res.distinct = int(pm.group(1).replace(",", "")), int(pm.group(2).replace(",", ""))
    m = re.search(r"The number of states generated:\s*(\d+)", out)
    if m and not res.generated:
        res.generated = int(m.group(1))
        res.distinct = res.distinct or res.generated
    m = re.search(r"depth of the complete state graph search is (\d+)", out)
    if m:
        res.depth = int(m.group(1))
    m = re.search(r"Invariant (\S+) is violated", out)
    if m:
        res.violated = m.group(1)
    elif re.search(r"Action property (\S+)", out) and "is violated" in out:
        res.violated = re.search(r"Action property (\S+)", out).group(1)
    elif "Deadlock reached" in out:
        res.violated = "deadlock"
    elif "Temporal properties were violated" in out:
        res.violated = "temporal"
    elif re.search(r"[Pp]ostcondition .*(violated|false)", out) or "POSTCONDITION" in out and "violated" in out:
        res.violated = "postcondition"
    elif re.search(r"Assumption .* is false", out):
        res.violated = "assumption"
    if res.violated is None and res.error is None and res.rc not in (0, None):
        # evaluation errors, parse errors, OOM ...
        m = re.search(r"(?s)Error: (.*?)(?:\n\n|\Z)", out)
        res.error = (m.group(1)[:1500] if m else "TLC exit code %s" % res.rc)
    if res.violated:
        res.trace = re.findall(r"(?s)State \d+: .*?(?=\nState \d+: |\n\d+ states generated|\nThe number of states|\Z)", out)
    for m in re.finditer(r"<(\w+) line \d+, col \d+ to line \d+, col \d+ of module (\w+)>: (\d+):(\d+)", out):
        res.coverage[m.group(1)] = (int(m.group(3)), int(m.group(4)))


def run_chunks(spec, cfg, recs, path_prefix, env=None, chunk=12000, tag="FAIL", also=(), **kw):
    """Independent records (no cross references) validated in batches: a 60 MB trace file makes one JVM spend its time in
    the garbage collector.  `tid` is rewritten per batch.  Returns (merged TLCResult, [(record, rest-of-printed-tuple)])."""
    from .common import dump_ndjson

    total = TLCResult()
    total.also = {}  # counts of other printed tags (e.g. "AMBIG")
    fails = []
    for b0 in range(0, len(recs), chunk):
        part = recs[b0:b0 + chunk]
        for k, r in enumerate(part):
            r["tid"] = k + 1
        tp = "%s.%d.ndjson" % (path_prefix, b0 // chunk)
        dump_ndjson(tp, part)
        e = dict(env or {})
        e["TRACE_FILE"] = tp
        res = run(spec, cfg, env=e, **kw)
        os.remove(tp)
        if res.error or res.distinct != 2 * len(part):
            raise MachineryError("%s consumed %d of %d records of batch %d (%s)" % (spec, res.distinct // 2, len(part), b0 // chunk, res.error))
        total.generated += res.generated
        total.distinct += res.distinct
        total.wall += res.wall
        total.depth = max(total.depth, res.depth)
        total.rc = 0
        for item in res.printed(tag):
            fails.append((part[item[0] - 1], item[1:]))
        for t in also:
            total.also[t] = total.also.get(t, 0) + len(res.printed(t))
    for k, r in enumerate(recs):
        r["tid"] = k + 1
    return total, fails


def sany(spec):
    p = subprocess.run(["java", "-cp", JAR, "tla2sany.SANY", spec], cwd=SPEC, stdout=subprocess.PIPE,
                       stderr=subprocess.STDOUT, text=True)
    return p.returncode == 0 and "Semantic errors" not in p.stdout and "Parse Error" not in p.stdout, p.stdout
