"""CLI of all checks:  python -m mv.check Cxx [--tier quick|thorough] [--replay file]"""
import argparse
import importlib
import os
import sys
import traceback

from . import common


def main():
    ap = argparse.ArgumentParser()
    ap.add_argument("prop")
    ap.add_argument("--tier", default=os.environ.get("VERIF_TIER", "quick"), choices=["quick", "thorough"])
    ap.add_argument("--replay", default=None)
    a = ap.parse_args()
    pid = a.prop.upper()
    try:
        # the rebuilt extension must be in place before anything imports matid.geometry
        from . import build_ext

        build_ext.install()
        mod = importlib.import_module("mv.props.%s" % pid.lower())
        if a.replay:
            rc = mod.replay(a.replay) if hasattr(mod, "replay") else _generic_replay(mod, a)
        else:
            rc = mod.run(a.tier)
    except common.MachineryError as e:
        print("MACHINERY-FAILURE property=%s %s" % (pid, e), flush=True)
        sys.exit(2)
    except SystemExit:
        raise
    except Exception:
        traceback.print_exc()
        print("MACHINERY-FAILURE property=%s unexpected exception in the harness" % pid, flush=True)
        sys.exit(2)
    sys.exit(rc)


def _generic_replay(mod, a):
    import json

    r = json.load(open(a.replay))
    os.environ["VERIF_SEED"] = str(r.get("seed", 0))
    print("replaying %s (seed %s, tier %s): %s" % (r["key"], r.get("seed"), r.get("tier"), r["what"]))
    return mod.run(r.get("tier", a.tier))


if __name__ == "__main__":
    main()
