"""Recording wrappers installed by the harness (no edits to /repo): the linearization point of a
sequential library call is its return, so each wrapper logs arguments and the projected state after the
call returns (and on the exception path).  Active only when MATID_VERIF_TRACE=1 (set by ./check)."""
import contextlib
import os

import numpy as np

ENABLED = os.environ.get("MATID_VERIF_TRACE") == "1"


def _snap(clusters):
    out = []
    for c in clusters:
        reg = c._region
        out.append({"idx": sorted(int(i) for i in c.indices),
                    "sp": sorted(int(z) for z in c.species),
                    "reg": -1 if reg is None else int(len(reg.get_basis_indices())),
                    "mg": bool(c._merged)})
    return out


@contextlib.contextmanager
def sbc_trace():
    """Collects the SBC pipeline events of every get_clusters call made inside the context.
    Yields a list that receives one dict per call: {"events": [...], "drift": [...]}."""
    from matid.clustering import sbc as sbcmod
    from matid.core.periodicfinder import PeriodicFinder

    calls = []
    if not ENABLED:
        yield calls
        return
    cur = {"events": None}
    missing = []
    orig = {}

    def wrap(owner, name, fn):
        if not hasattr(owner, name):
            missing.append(name)
            return
        orig[(owner, name)] = getattr(owner, name)
        setattr(owner, name, fn(getattr(owner, name)))

    def w_get_clusters(f):
        def g(self, system, *a, **kw):
            rec = {"events": [], "missing_hooks": list(missing), "n": len(system)}
            prev = (cur["events"], cur.get("rec"))
            cur["events"], cur["rec"] = rec["events"], rec
            try:
                return f(self, system, *a, **kw)
            finally:
                cur["events"], cur["rec"] = prev
                calls.append(rec)
        return g

    def w_get_region(f):
        def g(self, system, seed_index, *a, **kw):
            res = f(self, system, seed_index, *a, **kw)
            if cur["events"] is not None and kw.get("return_mask"):
                region, mask = res
                ev = {"ev": "seed", "s": int(seed_index), "mask": [int(i) for i in np.flatnonzero(mask)],
                      "has": region is not None,
                      "grain": [] if region is None else sorted(int(i) for i in region.get_basis_indices())}
                if region is not None:
                    ev["cellpbc"] = int(np.sum(region.cell.get_pbc()))
                cur["events"].append(ev)
            return res
        return g

    def w_phase(label):
        def deco(f):
            def g(self, *a, **kw):
                res = f(self, *a, **kw)
                if cur["events"] is not None:
                    cur["events"].append({"ev": label, "clusters": _snap(res)})
                return res
            return g
        return deco

    def w_get_distances(f):
        def g(*a, **kw):
            res = f(*a, **kw)
            if cur["events"] is not None and cur.get("rec") is not None and "dist_radii" not in cur["rec"]:
                cur["rec"]["dist_radii"] = np.array(res.dist_matrix_radii_mic, dtype=float)
            return res
        return g

    import matid.geometry as geo

    wrap(geo, "get_distances", w_get_distances)
    wrap(sbcmod.SBC, "get_clusters", w_get_clusters)
    wrap(PeriodicFinder, "get_region", w_get_region)
    wrap(sbcmod.SBC, "_merge_clusters", w_phase("merged"))
    wrap(sbcmod.SBC, "_localize_clusters", w_phase("localized"))
    wrap(sbcmod.SBC, "_clean_clusters", w_phase("cleaned"))
    try:
        yield calls
    finally:
        for (owner, name), f in orig.items():
            setattr(owner, name, f)
