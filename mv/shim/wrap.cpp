// extern "C" surface over matid/ext/{geometry,celllist}.cpp compiled against the stand-in pybind11/numpy.h.
// Built by mv/build_ext.py from /repo's working tree; loaded through ctypes (pybind11 is not in the sandbox).
#include "geometry.h"
#include <cstring>
#include <string>
static std::string last_error;
extern "C" {
const char* ext_last_error() { return last_error.c_str(); }

int ext_extend_system(const double* pos, const int* num, int n, const double* cell, const bool* pbc, double cutoff,
                      double** out_pos, int** out_num, int** out_idx, double** out_fac) {
    try {
        py::array_t<double> P((double*)pos, {n, 3}); py::array_t<int> Z((int*)num, {n});
        py::array_t<double> C((double*)cell, {3, 3}); py::array_t<bool> B((bool*)pbc, {3});
        ExtendedSystem s = extend_system(P, Z, C, B, cutoff);
        int m = s.indices.size();
        *out_pos = (double*)malloc(sizeof(double) * 3 * (m + 1)); memcpy(*out_pos, s.positions.d, sizeof(double) * 3 * m);
        *out_num = (int*)malloc(sizeof(int) * (m + 1)); memcpy(*out_num, s.atomic_numbers.d, sizeof(int) * m);
        *out_idx = (int*)malloc(sizeof(int) * (m + 1)); memcpy(*out_idx, s.indices.d, sizeof(int) * m);
        *out_fac = (double*)malloc(sizeof(double) * 3 * (m + 1)); memcpy(*out_fac, s.factors.d, sizeof(double) * 3 * m);
        return m;
    } catch (const std::exception& e) { last_error = e.what(); return -1; }
}
void ext_free(void* p) { free(p); }

int ext_disp(double* disp, double* dist, double* fac, const double* pos, int n, const double* cell, const bool* pbc,
             double cutoff, int rf, int rd) {
    try {
        py::array_t<double> D(disp, {n, n, 3}), R(dist, {n, n}), F(fac, {n, n, 3});
        py::array_t<double> P((double*)pos, {n, 3}); py::array_t<double> C((double*)cell, {3, 3});
        py::array_t<bool> B((bool*)pbc, {3});
        get_displacement_tensor(D, R, F, P, C, B, cutoff, rf != 0, rd != 0);
        return 0;
    } catch (const std::exception& e) { last_error = e.what(); return -1; }
}

void* ext_cell_list_new(const double* pos, int n, const double* cell, const bool* pbc, double extension, double cutoff) {
    try {
        py::array_t<double> P((double*)pos, {n, 3}); py::array_t<double> C((double*)cell, {3, 3});
        py::array_t<bool> B((bool*)pbc, {3});
        CellList* cl = new CellList(get_cell_list(P, C, B, extension, cutoff));
        return (void*)cl;
    } catch (const std::exception& e) { last_error = e.what(); return nullptr; }
}
void* ext_cell_list_direct(const double* pos, int n, const int* idx, const double* fac, double cutoff) {
    try {
        py::array_t<double> P((double*)pos, {n, 3}); py::array_t<int> I((int*)idx, {n});
        py::array_t<double> F((double*)fac, {n, 3});
        // CellList keeps indices_py; give it owned memory
        py::array_t<int> Iown({n}); for (int i = 0; i < n; ++i) Iown.d[i] = idx[i];
        return (void*) new CellList(P, Iown, F, cutoff);
    } catch (const std::exception& e) { last_error = e.what(); return nullptr; }
}
void ext_cell_list_free(void* h) { delete (CellList*)h; }

// query; returns count, fills malloc'ed arrays
static int pack(const CellListResult& r, int** idx, int** orig, double** dist, double** dist2, double** disp, double** fac) {
    int m = r.indices.size();
    *idx = (int*)malloc(sizeof(int) * (m + 1)); *orig = (int*)malloc(sizeof(int) * (m + 1));
    *dist = (double*)malloc(sizeof(double) * (m + 1)); *dist2 = (double*)malloc(sizeof(double) * (m + 1));
    *disp = (double*)malloc(sizeof(double) * 3 * (m + 1)); *fac = (double*)malloc(sizeof(double) * 3 * (m + 1));
    for (int i = 0; i < m; ++i) {
        (*idx)[i] = r.indices[i]; (*orig)[i] = r.indices_original[i];
        (*dist)[i] = r.distances[i]; (*dist2)[i] = r.distances_squared[i];
        for (int k = 0; k < 3; ++k) { (*disp)[3 * i + k] = r.displacements[i][k]; (*fac)[3 * i + k] = r.factors[i][k]; }
    }
    return m;
}
int ext_cell_list_query_pos(void* h, double x, double y, double z, int** idx, int** orig, double** dist, double** dist2,
                            double** disp, double** fac) {
    try { return pack(((CellList*)h)->get_neighbours_for_position(x, y, z), idx, orig, dist, dist2, disp, fac); }
    catch (const std::exception& e) { last_error = e.what(); return -1; }
}
int ext_cell_list_query_idx(void* h, int i, int** idx, int** orig, double** dist, double** dist2, double** disp, double** fac) {
    try { return pack(((CellList*)h)->get_neighbours_for_index(i), idx, orig, dist, dist2, disp, fac); }
    catch (const std::exception& e) { last_error = e.what(); return -1; }
}
}
