// Minimal stand-in for the subset of pybind11::array_t used by matid/ext/{geometry,celllist}.cpp
#pragma once
#include <vector>
#include <memory>
#include <initializer_list>
#include <cstddef>
#include <cmath>
#include <stdexcept>
#include <unordered_map>
#include <tuple>
#include <string>
#include <cstdlib>
namespace pybind11 {
typedef long ssize_t;
template <typename T, int N> struct uref {
    T* d; ssize_t shp[3]; ssize_t str[3];
    T& operator()(ssize_t i) const { return d[i*str[0]]; }
    T& operator()(ssize_t i, ssize_t j) const { return d[i*str[0]+j*str[1]]; }
    T& operator()(ssize_t i, ssize_t j, ssize_t k) const { return d[i*str[0]+j*str[1]+k*str[2]]; }
    ssize_t shape(int k) const { return shp[k]; }
};
template <typename T> class array_t {
public:
    std::shared_ptr<std::vector<T>> own; T* d; std::vector<ssize_t> shp;
    array_t(): d(nullptr) {}
    array_t(std::initializer_list<ssize_t> s): shp(s) { alloc(); }
    array_t(std::initializer_list<int> s) { for (int x: s) shp.push_back(x); alloc(); }
    array_t(T* ext, std::vector<ssize_t> s): d(ext), shp(s) {}
    void alloc(){ ssize_t n=1; for (auto x: shp) n*=x; own=std::make_shared<std::vector<T>>(n); d=own->data(); }
    ssize_t size() const { ssize_t n=1; for (auto x: shp) n*=x; return n; }
    ssize_t shape(int k) const { return shp[k]; }
    template <int N> uref<T,N> mk() const { uref<T,N> r; r.d=d; ssize_t st=1; for (int k=N-1;k>=0;--k){ r.shp[k]=shp[k]; r.str[k]=st; st*=shp[k]; } return r; }
    template <int N> uref<const T,N> unchecked() const { auto m=mk<N>(); uref<const T,N> r; r.d=m.d; for(int k=0;k<N;++k){r.shp[k]=m.shp[k]; r.str[k]=m.str[k];} return r; }
    template <int N> uref<T,N> mutable_unchecked() { return mk<N>(); }
};
}
