#!/bin/sh
# Detection regression: run, for every seeded change, the checks its meta.json says catch it (at the recorded tier) and
# report whether they still do.  usage: tools/seed_sweep.sh [pattern]   (4 at a time; scratch worktrees, /repo untouched)
cd "$(dirname "$0")/.." || exit 1
PAT="${1:-}"
run_one() {
  D="$1"; N="$(basename "$D")"
  [ -f "$D/meta.json" ] || { echo "$N no-meta"; return; }
  PROPS="$(jq -r '.caught_by | join(" ")' "$D/meta.json")"; TIER="$(jq -r '.tier // "quick"' "$D/meta.json")"
  [ -n "$PROPS" ] || { echo "$N caught_by empty (neutralised)"; return; }
  case "$TIER" in quick|thorough) ;; *) TIER=quick;; esac
  OUT="$(tools/seed_run.sh "$D" "$PROPS" "$TIER" 2>&1 | grep "^$N ")"
  if echo "$OUT" | grep -q "rc=1 violations=[1-9]"; then echo "CAUGHT  $N [$TIER] $(echo "$OUT" | grep -m1 'rc=1' | cut -c1-150)"; else echo "MISSED  $N [$TIER] $(echo "$OUT" | tr '\n' ';' | cut -c1-300)"; fi
}
I=0
for D in seeded/*$PAT*/; do
  run_one "${D%/}" &
  I=$((I+1)); [ $((I % 4)) -eq 0 ] && wait
done
wait
