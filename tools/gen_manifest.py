#!/usr/bin/env python3
"""Regenerates MANIFEST.json from the CHECKS table below (single source of truth)."""
import json, os
HERE = os.path.dirname(os.path.dirname(os.path.abspath(__file__)))
BASE = "cd /repo && /venv/bin/python -m pytest -ra -q -p no:cacheprovider --timeout=900 --continue-on-collection-errors"
CHECKS = json.load(open(os.path.join(HERE, "tools", "checks.json")))
props = [json.loads(l) for l in open(os.path.join(HERE, "properties.jsonl"))]
claimed = {c["property_id"] for c in CHECKS["checks"]}
man = {
    "version": 1,
    "setup_cmd": "cd /verif && ./setup.sh",
    "hooks": {"guard": "MATID_VERIF_TRACE", "enable": "no source hooks: the harness installs recording wrappers at import time when MATID_VERIF_TRACE=1 (set by ./check); /repo is imported from its working tree and matid/ext/*.cpp is rebuilt by mv/build_ext.py",
              "baseline_off_cmd": BASE, "source_commits": [], "add_only": True},
    "engines": CHECKS["engines"],
    "checks": [],
    "notes": CHECKS["notes"],
    "not_applicable": [],
}
for c in CHECKS["checks"]:
    pid = c["property_id"]
    man["checks"].append({
        "property_id": pid,
        "quick_cmd": "./check %s --tier quick" % pid,
        "thorough_cmd": "./check %s --tier thorough" % pid,
        "evidence_file": "/verif/evidence/%s.json" % pid,
        "replay_cmd_template": "./check %s --replay {path}" % pid,
        "engine": c.get("engine", "tlc"),
        "level_claimed": {"category": c["level"], "text": c["text"], "design_ref": c["design_ref"]},
        "level_note": c["note"],
        "technique": c["technique"],
    })
for p in props:
    if p["id"] not in claimed:
        man["not_applicable"].append({"property_id": p["id"], "reason": CHECKS["pending"].get(p["id"], "check not built yet (work in progress; see DESIGN.md section 5)")})
json.dump(man, open(os.path.join(HERE, "MANIFEST.json"), "w"), indent=1)
print("claimed:", sorted(claimed))
