#!/bin/sh
# Run registered checks against a seeded change without touching /repo:
#   tools/seed_run.sh seeded/<dir> "C01 C13" [quick|thorough]
# A scratch worktree of /repo HEAD gets the patch; checks run with MATID_REPO pointing at it; evidence goes to scratch.
D="$(cd "$1" && pwd)"; N="$(basename "$D")"; PROPS="$2"; TIER="${3:-quick}"; WT=/tmp/wt/run-$N-$$
git -C /repo worktree add --detach "$WT" HEAD -q || exit 2
cp /repo/matid/*.so "$WT/matid/" 2>/dev/null
if ! git -C "$WT" apply "$D/patch.diff"; then echo "$N: PATCH DOES NOT APPLY"; git -C /repo worktree remove --force "$WT"; exit 3; fi
mkdir -p /tmp/wt/evid-$N-$$
for P in $PROPS; do
  MATID_REPO="$WT" VERIF_EVIDENCE_DIR=/tmp/wt/evid-$N-$$ "$(dirname "$0")/../check" $P --tier $TIER > /tmp/wt/seedrun-$N-$P.log 2>&1; RC=$?
  echo "$N $P tier=$TIER rc=$RC violations=$(grep -c '^VIOLATION' /tmp/wt/seedrun-$N-$P.log) :: $(grep -m1 'key=' /tmp/wt/seedrun-$N-$P.log | cut -c1-160)"
done
rm -rf /tmp/wt/evid-$N-$$
git -C /repo worktree remove --force "$WT"
