#!/bin/sh
# Confirm a seeded change in a scratch worktree: demo passes clean, patch applies, 110 tests pass, demo fails.
# usage: tools/seed_confirm.sh seeded/<dir>
D="$(cd "$1" && pwd)"; N="$(basename "$D")"; WT=/tmp/wt/confirm-$N
git -C /repo worktree add --detach "$WT" HEAD -q || exit 2
cp /repo/matid/*.so "$WT/matid/"
cd "$WT"
export PYTHONPATH="$WT"
/venv/bin/python "$D/demo.py" >/tmp/wt/$N.clean.log 2>&1; RC_CLEAN=$?
git apply "$D/patch.diff"; RC_APPLY=$?
/venv/bin/python -m pytest -q -p no:cacheprovider --timeout=900 tests >/tmp/wt/$N.tests.log 2>&1; RC_TESTS=$?
TESTS="$(tail -1 /tmp/wt/$N.tests.log)"
/venv/bin/python "$D/demo.py" >/tmp/wt/$N.mut.log 2>&1; RC_MUT=$?
cd /; git -C /repo worktree remove --force "$WT"
echo "$N clean_demo_rc=$RC_CLEAN apply_rc=$RC_APPLY tests_rc=$RC_TESTS ($TESTS) mutant_demo_rc=$RC_MUT"
