#!/bin/sh
# As seed_confirm.sh, for changes to matid/ext/*.cpp: tests and demo run with the extension rebuilt from the worktree.
D="$(cd "$1" && pwd)"; N="$(basename "$D")"; WT=/tmp/wt/confirmcpp-$N; T="$(cd "$(dirname "$0")" && pwd)"
git -C /repo worktree add --detach "$WT" HEAD -q || exit 2
cp /repo/matid/*.so "$WT/matid/"
/venv/bin/python "$T/withext.py" "$WT" "$D/demo.py" >/tmp/wt/$N.clean.log 2>&1; RC_CLEAN=$?
git -C "$WT" apply "$D/patch.diff"; RC_APPLY=$?
/venv/bin/python "$T/withext.py" "$WT" pytest -q -p no:cacheprovider --timeout=900 tests >/tmp/wt/$N.tests.log 2>&1; RC_TESTS=$?
TESTS="$(tail -1 /tmp/wt/$N.tests.log)"
/venv/bin/python "$T/withext.py" "$WT" "$D/demo.py" >/tmp/wt/$N.mut.log 2>&1; RC_MUT=$?
cd /; git -C /repo worktree remove --force "$WT"
echo "$N (rebuilt C++) clean_demo_rc=$RC_CLEAN apply_rc=$RC_APPLY tests_rc=$RC_TESTS ($TESTS) mutant_demo_rc=$RC_MUT"
