#!/bin/sh
# quick sensitivity probe: apply a sed expression to a file of a scratch worktree and run checks against it
#   tools/sed_mutant.sh 's/ceil(factor)/floor(factor)/' matid/ext/geometry.cpp "C10 C16"
EXPR="$1"; FILE="$2"; PROPS="$3"; WT=/tmp/wt/sedmut-$$
git -C /repo worktree add --detach "$WT" HEAD -q || exit 2
cp /repo/matid/*.so "$WT/matid/" 2>/dev/null
sed -i "$EXPR" "$WT/$FILE"
if git -C "$WT" diff --quiet; then echo "NO CHANGE"; git -C /repo worktree remove --force "$WT"; exit 3; fi
mkdir -p /tmp/wt/evid-$$
for P in $PROPS; do
  MATID_REPO="$WT" VERIF_EVIDENCE_DIR=/tmp/wt/evid-$$ "$(dirname "$0")/../check" $P --tier quick > /tmp/wt/sedmut-$P.log 2>&1; RC=$?
  echo "[$EXPR] $P rc=$RC violations=$(grep -c '^VIOLATION' /tmp/wt/sedmut-$P.log) drift=$(grep -c '^MODEL-DRIFT' /tmp/wt/sedmut-$P.log) :: $(grep -m1 'key=' /tmp/wt/sedmut-$P.log | cut -c1-150)"
done
rm -rf /tmp/wt/evid-$$; git -C /repo worktree remove --force "$WT"
