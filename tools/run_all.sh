#!/bin/sh
# Run every registered check once (tier $1, default quick) and print the summary lines.
cd "$(dirname "$0")/.." || exit 1
TIER="${1:-quick}"
for p in C01 C02 C03 C04 C05 C06 C07 C08 C09 C10 C11 C12 C13 C14 C15 C16 C17 C18 C19 C20; do
  ./check $p --tier $TIER 2>&1 | grep -E "^(VIOLATION|MACHINERY|MODEL-DRIFT|C[0-9]+ tier)" | cut -c1-250
done
