#!/usr/bin/env python3
"""Run pytest or a script against a worktree of matid with its C++ extension REBUILT from that worktree
(ctypes shim of mv/build_ext.py).  usage: withext.py <worktree> pytest [args...] | withext.py <worktree> script.py"""
import os
import runpy
import sys

wt = os.path.abspath(sys.argv[1])
os.environ["MATID_REPO"] = wt
sys.path[:0] = [os.path.dirname(os.path.dirname(os.path.abspath(__file__))), wt]
from mv import build_ext  # noqa: E402

build_ext.install()
os.chdir(wt)
if sys.argv[2] == "pytest":
    import pytest

    sys.exit(pytest.main(sys.argv[3:]))
sys.argv = sys.argv[2:]
runpy.run_path(sys.argv[0], run_name="__main__")
