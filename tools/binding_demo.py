#!/usr/bin/env python3
"""Binding demonstrations (DESIGN 8): for each trace spec, corrupt one recorded field or drop one hook's events
and show that TLC rejects the trace, naming the clause.  Run:  cd /verif && PYTHONPATH=/verif:/repo MATID_VERIF_TRACE=1
/venv/bin/python tools/binding_demo.py   (writes tools/binding_demo.log)"""
import copy
import json
import os
import sys

sys.path[:0] = ["/verif", os.environ.get("MATID_REPO", "/repo")]
os.environ.setdefault("MATID_VERIF_TRACE", "1")
from mv import build_ext  # noqa: E402

build_ext.install()
from mv import common, export_data, sbcrun, structures, tlc, zworld  # noqa: E402
from mv.props import c10, symcommon  # noqa: E402

out = []


def say(*a):
    line = " ".join(str(x) for x in a)
    print(line)
    out.append(line)


d = common.scratch("binding")

# ---------------------------------------------------------------- TraceSBC (replay through SBC.tla's actions)
fam = [x for x in structures.c01_family("quick") if x[0] in ("rsstack", "crystallite", "slabads")][:12]
recs = [sbcrun.execute((k, dsc, {}, {"rigid": False, "rerun": True})) for k, dsc in fam]
recs = [r for r in recs if r.get("events") and "bondC" in r and not r.get("error")]
for i, r in enumerate(recs):
    r["tid"] = i + 1
    r["error"] = ""


def replay(rs, label):
    p = os.path.join(d, "replay.ndjson")
    common.dump_ndjson(p, rs)
    res = tlc.run("TraceSBC.tla", "TraceSBC.cfg", env={"TRACE_FILE": p}, must_pass=False, extra=("-continue",))
    acc = sorted(x[0] for x in res.printed("ACCEPT"))
    say("TraceSBC", label, "-> accepted", len(acc), "of", len(rs), "rejected tids", [r["tid"] for r in rs if r["tid"] not in acc])
    return acc


replay(recs, "unmodified traces")
bad = copy.deepcopy(recs)
victim = next(r for r in bad if any(e["ev"] == "cleaned" and e["clusters"] for e in r["events"]))
for e in victim["events"]:
    if e["ev"] == "cleaned":
        e["clusters"][0]["idx"] = e["clusters"][0]["idx"][:-1]  # one atom dropped from the recorded final cluster
replay(bad, "one atom removed from the recorded 'cleaned' snapshot of tid %d" % victim["tid"])
bad = copy.deepcopy(recs)
victim = next(r for r in bad if sum(1 for e in r["events"] if e["ev"] == "seed") >= 1)
victim["events"] = [e for e in victim["events"] if e["ev"] != "seed"]  # the get_region hook removed
replay(bad, "all 'seed' events (get_region hook) removed from tid %d" % victim["tid"])

# ---------------------------------------------------------------- TraceSBCVerdict (C01 predicates)
p = os.path.join(d, "verdict.ndjson")
bad = copy.deepcopy(recs)
for r in bad:
    r.setdefault("rerun_history", [])
    r["history_run"] = False
v = next(r for r in bad if r["final"])
v["final"][0]["idx"].append(v["final"][0]["idx"][0])  # duplicate index
v["rerun"] = [c["idx"] for c in v["final"]]
common.dump_ndjson(p, bad)
res = tlc.run("TraceSBCVerdict.tla", "TraceSBCVerdict.cfg", env={"TRACE_FILE": p, "MODE": "C01"})
say("TraceSBCVerdict duplicate index injected into tid", v["tid"], "->", res.printed("FAIL"))

# ---------------------------------------------------------------- CellTrace (C10)
cfgs = [c for c in c10.exhaustive_pairs("quick") if all(c["pbc"])][:60]
rs = [c10.execute(c) for c in cfgs]
rs = [r for r in rs if "skip" not in r and "error" not in r]
for i, r in enumerate(rs):
    r["tid"] = i + 1
v = next(r for r in rs if any(any(f) for row in r["fac"] for f in row))
i_, j_ = next((i, j) for i in range(v["n"]) for j in range(v["n"]) if any(v["fac"][i][j]))
v["fac"][i_][j_][[k for k in range(3) if v["fac"][i_][j_][k]][0]] += 1  # one factor off by one
p = os.path.join(d, "tensor.ndjson")
common.dump_ndjson(p, rs)
res = tlc.run("CellTrace.tla", "CellTrace.cfg", env={"TRACE_FILE": p})
say("CellTrace one recorded factor changed by 1 in tid", v["tid"], "->", res.printed("FAIL"))

# ---------------------------------------------------------------- Crystal (C07)
run = common.Run("C07", "quick", "exploration")
recs7 = symcommon.collect(run, [(sg, 0, 1, None, 48, "C07") for sg in (62, 136, 167, 225)])
v = recs7[1]
v["let_conv"][0] = "a" if v["let_conv"][0] != "a" else "b"  # one letter changed
symdata, refgroups, _, _ = export_data.export_all(d)
p = os.path.join(d, "crystal.ndjson")
common.dump_ndjson(p, recs7)
res = tlc.run("Crystal.tla", "Crystal.cfg", env={"TRACE_FILE": p, "MODE": "C07", "SYMDATA": symdata, "REFGROUPS": refgroups})
say("Crystal one recorded Wyckoff letter changed in tid", v["tid"], "(sg %d) ->" % v["sg"], res.printed("FAIL"))
v["let_conv"][0] = recs7[1]["sets"][0]["letter"]
recs7[2]["conv"]["pos"][0][0] = (recs7[2]["conv"]["pos"][0][0] + 5000) % 960000  # one coordinate shifted by 5e-3
common.dump_ndjson(p, recs7)
res = tlc.run("Crystal.tla", "Crystal.cfg", env={"TRACE_FILE": p, "MODE": "C07", "SYMDATA": symdata, "REFGROUPS": refgroups})
say("Crystal one recorded coordinate shifted by 5e-3 in tid", recs7[2]["tid"], "(sg %d) ->" % recs7[2]["sg"], res.printed("FAIL"))

# ---------------------------------------------------------------- Crystal (C12): dataset binding of the label transport (Mappings.tla)
recs12 = symcommon.collect(run, [(sg, 0, 1, None, 48, "C12") for sg in (62, 136, 167, 225)])
v = next(r for r in recs12 if len(set(r["ds"]["wy"])) > 1)
wy_of = {k: v["ds"]["wy"][v["ds"]["m2p"].index(k)] for k in set(v["ds"]["m2p"])}
c0 = 0
other = next(k for k in wy_of if wy_of[k] != wy_of[v["ds"]["s2p"][c0]])
v["ds"]["s2p"][c0] = other  # one entry of the recorded std_mapping_to_primitive points at a primitive atom on another letter
p = os.path.join(d, "crystal12.ndjson")
common.dump_ndjson(p, recs12)
res = tlc.run("Crystal.tla", "Crystal.cfg", env={"TRACE_FILE": p, "MODE": "C12", "SYMDATA": symdata, "REFGROUPS": refgroups})
say("Crystal(C12) one recorded std_mapping_to_primitive entry redirected in tid", v["tid"], "(sg %d) ->" % v["sg"], res.printed("FAIL"))

# ---------------------------------------------------------------- TraceBestBasis (growth module, hosted by C04)
from matid.core.periodicfinder import PeriodicFinder  # noqa: E402

from mv import bestbasis  # noqa: E402

rng = common.rng_for("binding-bestbasis")
fb = PeriodicFinder()
cases = [([(1, 0, 0), (0, 1, 0), (0, 0, 1), (1, 1, 0)], [1, 1, 1, 1]), ([(0, 1, 1), (1, 0, 1), (1, 1, 0), (1, 1, 1)], [30, 30, 30, 30]),
         ([(1, 0, 0), (0, 2, 0)], [1, 1]), ([(1, 0, 0), (2, 0, 0)], [1, 1])]
rb = [bestbasis.execute(fb, sp, me, rng) for sp, me in cases]
for k, r in enumerate(rb):
    r["tid"] = k + 1
p = os.path.join(d, "bb.ndjson")
common.dump_ndjson(p, rb)
res = tlc.run("TraceBestBasis.tla", "TraceBestBasis.cfg", env={"TRACE_FILE": p})
say("TraceBestBasis unmodified calls ->", res.printed("FAIL"), "answers", [r["res"] for r in rb])
rb[0]["res"] = [1, 2, 4]  # a coplanar triple recorded instead of the code's answer
rb[1]["res"] = [1, 2, 4]  # an admissible triple of twice the smallest volume
rb[2]["res"] = [1]        # one span where two independent ones are available
common.dump_ndjson(p, rb)
res = tlc.run("TraceBestBasis.tla", "TraceBestBasis.cfg", env={"TRACE_FILE": p})
say("TraceBestBasis three recorded answers replaced (coplanar triple / double volume / one span of two) ->", res.printed("FAIL"))

open(os.path.join(common.ROOT, "tools", "binding_demo.log"), "w").write("\n".join(out) + "\n")
